module simrewrite

go 1.23
