// Command simrewrite generates the check-time instrumentation of tucats/ego as a
// `go build -overlay` replacement set. It never writes into the repository.
//
//	simrewrite -repo /repo -out DIR [-sync] [-gostmt] [-step] [-sql pkgdir,...] [-os file,...] [-maporder file,...] [-const file:name=value,...] dir...
//
// For every non-test .go file below the given directories (relative to -repo) the
// enabled rules are applied; changed files are written to DIR/files/<rel> and the
// mapping {abs original: abs replacement} to DIR/rewrite.json.
//
// Rules (DESIGN.md §2.1):
//
//	R1a -sync      import "sync"          -> internal/verifsim/sync (package name sync)
//	R1b -sql       import "database/sql"  -> internal/verifsim/simsql (only in listed package dirs)
//	R1c -os        import "os"            -> internal/verifsim/simfs  (only in listed files)
//	R2  -gostmt    go f(x)                -> { tok := sim.Spawn(); go func(){ sim.Enter(tok); defer sim.Exit(); f(x) }() }
//	R3  -step      sim.Step() at the top of the dispatch loop in bytecode.(*Context).RunFromAddress
//	R4  -maporder  for k, v := range X.routes -> ordered by sim.MapKeys (listed files)
//	R6  -const     replace the value of a package-level const/var (cost knobs)
//
// Exit status 2 on any rule that does not apply cleanly where it is required.
package main

import (
	"bytes"
	"encoding/json"
	"flag"
	"fmt"
	"go/ast"
	"go/format"
	"go/parser"
	"go/token"
	"os"
	"path/filepath"
	"sort"
	"strconv"
	"strings"
)

const (
	simPath  = "github.com/tucats/ego/internal/verifsim/sim"
	syncPath = "github.com/tucats/ego/internal/verifsim/sync"
	sqlPath  = "github.com/tucats/ego/internal/verifsim/simsql"
	fsPath   = "github.com/tucats/ego/internal/verifsim/simfs"
	simName  = "verifsim"
)

var (
	repo      = flag.String("repo", "/repo", "repository root")
	out       = flag.String("out", "", "output directory")
	doSync    = flag.Bool("sync", false, "R1a")
	doGo      = flag.Bool("gostmt", false, "R2")
	doStep    = flag.Bool("step", false, "R3")
	sqlDirs   = flag.String("sql", "", "R1b: comma separated package dirs (relative)")
	osFiles   = flag.String("os", "", "R1c: comma separated files (relative)")
	mapFiles  = flag.String("maporder", "", "R4: comma separated files (relative)")
	consts    = flag.String("const", "", "R6: file:name=value,...")
	chanFiles = flag.String("chan", "", "R7: comma separated files (relative) whose channel send/receive statements become scheduled")
)

type stats struct {
	Files, Sync, GoStmts, Steps, SQL, OS, MapOrder, Consts, Chan int
}

func fatal(format string, a ...any) {
	fmt.Fprintf(os.Stderr, "simrewrite: "+format+"\n", a...)
	os.Exit(2)
}

func set(csv string) map[string]bool {
	m := map[string]bool{}
	for _, s := range strings.Split(csv, ",") {
		if s = strings.TrimSpace(s); s != "" {
			m[filepath.Clean(s)] = true
		}
	}
	return m
}

func main() {
	flag.Parse()
	if *out == "" {
		fatal("-out required")
	}
	sqlSet, osSet, mapSet, chanSet := set(*sqlDirs), set(*osFiles), set(*mapFiles), set(*chanFiles)
	constMap := map[string]map[string]string{}
	for _, c := range strings.Split(*consts, ",") {
		if c = strings.TrimSpace(c); c == "" {
			continue
		}
		i := strings.Index(c, ":")
		j := strings.Index(c, "=")
		if i < 0 || j < i {
			fatal("bad -const %q", c)
		}
		f := filepath.Clean(c[:i])
		if constMap[f] == nil {
			constMap[f] = map[string]string{}
		}
		constMap[f][c[i+1:j]] = c[j+1:]
	}

	var st stats
	mapping := map[string]string{}
	var files []string
	for _, d := range flag.Args() {
		root := filepath.Join(*repo, d)
		fi, err := os.Stat(root)
		if err != nil {
			fatal("%v", err)
		}
		if !fi.IsDir() {
			files = append(files, root)
			continue
		}
		filepath.Walk(root, func(p string, info os.FileInfo, err error) error {
			if err != nil {
				return err
			}
			if info.IsDir() {
				if info.Name() == "verifsim" || info.Name() == "testdata" {
					return filepath.SkipDir
				}
				return nil
			}
			if strings.HasSuffix(p, ".go") && !strings.HasSuffix(p, "_test.go") {
				files = append(files, p)
			}
			return nil
		})
	}
	sort.Strings(files)
	stepDone := 0
	for _, p := range files {
		rel, _ := filepath.Rel(*repo, p)
		src, err := os.ReadFile(p)
		if err != nil {
			fatal("%v", err)
		}
		fset := token.NewFileSet()
		f, err := parser.ParseFile(fset, p, src, parser.ParseComments)
		if err != nil {
			fatal("parse %s: %v", rel, err)
		}
		changed := false
		needSim := false

		if *doSync && swapImport(f, "sync", syncPath, "sync") {
			st.Sync++
			changed = true
		}
		if sqlSet[filepath.Dir(rel)] && swapImport(f, "database/sql", sqlPath, "sql") {
			st.SQL++
			changed = true
		}
		if osSet[rel] {
			if !swapImport(f, "os", fsPath, "os") {
				fatal("R1c: %s does not import os", rel)
			}
			st.OS++
			changed = true
		}
		if *doGo {
			if n := rewriteGo(f); n > 0 {
				st.GoStmts += n
				changed, needSim = true, true
			}
		}
		if *doStep && filepath.Dir(rel) == "internal/language/bytecode" {
			if n := insertStep(f); n > 0 {
				stepDone += n
				st.Steps += n
				changed, needSim = true, true
			}
		}
		if mapSet[rel] {
			n := rewriteMapRange(f)
			if n == 0 {
				fatal("R4: no `range X.routes` loop found in %s", rel)
			}
			st.MapOrder += n
			changed, needSim = true, true
		}
		if chanSet[rel] {
			n := rewriteChan(f)
			if n == 0 {
				fatal("R7: no channel operations found in %s", rel)
			}
			st.Chan += n
			changed, needSim = true, true
		}
		if cm := constMap[rel]; cm != nil {
			for name, val := range cm {
				if !replaceValue(f, name, val) {
					fatal("R6: %s: no package-level declaration of %s with a value", rel, name)
				}
				st.Consts++
			}
			changed = true
			delete(constMap, rel)
		}
		if !changed {
			continue
		}
		if needSim {
			addImport(f, simName, simPath)
		}
		var buf bytes.Buffer
		if err := format.Node(&buf, fset, f); err != nil {
			fatal("format %s: %v", rel, err)
		}
		dst := filepath.Join(*out, "files", rel)
		os.MkdirAll(filepath.Dir(dst), 0o755)
		if err := os.WriteFile(dst, buf.Bytes(), 0o644); err != nil {
			fatal("%v", err)
		}
		mapping[p] = dst
		st.Files++
	}
	if *doStep && stepDone != 1 {
		fatal("R3: expected exactly one dispatch loop in bytecode.(*Context).RunFromAddress, found %d", stepDone)
	}
	for f := range constMap {
		fatal("R6: file %s not among the rewritten directories", f)
	}
	for f := range osSet {
		if _, ok := mapping[filepath.Join(*repo, f)]; !ok {
			fatal("R1c: file %s not found", f)
		}
	}
	for f := range mapSet {
		if _, ok := mapping[filepath.Join(*repo, f)]; !ok {
			fatal("R4: file %s not found", f)
		}
	}
	b, _ := json.MarshalIndent(mapping, "", " ")
	os.WriteFile(filepath.Join(*out, "rewrite.json"), b, 0o644)
	sb, _ := json.Marshal(st)
	fmt.Println(string(sb))
}

func swapImport(f *ast.File, from, to, name string) bool {
	done := false
	for _, im := range f.Imports {
		p, _ := strconv.Unquote(im.Path.Value)
		if p != from {
			continue
		}
		im.Path.Value = strconv.Quote(to)
		if im.Name == nil {
			im.Name = ast.NewIdent(name)
		}
		done = true
	}
	return done
}

func addImport(f *ast.File, name, path string) {
	for _, im := range f.Imports {
		if p, _ := strconv.Unquote(im.Path.Value); p == path {
			return
		}
	}
	spec := &ast.ImportSpec{Name: ast.NewIdent(name), Path: &ast.BasicLit{Kind: token.STRING, Value: strconv.Quote(path)}}
	decl := &ast.GenDecl{Tok: token.IMPORT, Specs: []ast.Spec{spec}}
	f.Decls = append([]ast.Decl{decl}, f.Decls...)
	f.Imports = append(f.Imports, spec)
}

func sel(pkg, name string) ast.Expr {
	return &ast.SelectorExpr{X: ast.NewIdent(pkg), Sel: ast.NewIdent(name)}
}

func call(fn ast.Expr, args ...ast.Expr) *ast.CallExpr { return &ast.CallExpr{Fun: fn, Args: args} }

// rewriteStmtLists applies fn to every statement of every statement list; fn may return
// a replacement statement.
func rewriteStmtLists(f *ast.File, fn func(ast.Stmt) ast.Stmt) {
	ast.Inspect(f, func(n ast.Node) bool {
		var list []ast.Stmt
		switch b := n.(type) {
		case *ast.BlockStmt:
			list = b.List
		case *ast.CaseClause:
			list = b.Body
		case *ast.CommClause:
			list = b.Body
		default:
			return true
		}
		for i, s := range list {
			if ls, ok := s.(*ast.LabeledStmt); ok {
				if r := fn(ls.Stmt); r != nil {
					ls.Stmt = r
				}
				continue
			}
			if r := fn(s); r != nil {
				list[i] = r
			}
		}
		return true
	})
}

var goCounter int

// R2
func rewriteGo(f *ast.File) int {
	n := 0
	seen := map[*ast.GoStmt]bool{}
	rewriteStmtLists(f, func(s ast.Stmt) ast.Stmt {
		g, ok := s.(*ast.GoStmt)
		if !ok || seen[g] {
			return nil
		}
		seen[g] = true
		n++
		goCounter++
		tok := fmt.Sprintf("vsTok%d", goCounter)
		pre := []ast.Stmt{
			&ast.AssignStmt{Lhs: []ast.Expr{ast.NewIdent(tok)}, Tok: token.DEFINE, Rhs: []ast.Expr{call(sel(simName, "Spawn"))}},
		}
		enter := []ast.Stmt{
			&ast.ExprStmt{X: call(sel(simName, "Enter"), ast.NewIdent(tok))},
			&ast.DeferStmt{Call: call(sel(simName, "Exit"))},
		}
		if lit, ok := g.Call.Fun.(*ast.FuncLit); ok {
			// arguments are still evaluated by the parent at the go statement
			lit.Body.List = append(enter, lit.Body.List...)
			return &ast.BlockStmt{List: append(pre, g)}
		}
		// go f(a, b...) : bind callee and arguments in the parent
		fn := fmt.Sprintf("vsFn%d", goCounter)
		pre = append(pre, &ast.AssignStmt{Lhs: []ast.Expr{ast.NewIdent(fn)}, Tok: token.DEFINE, Rhs: []ast.Expr{g.Call.Fun}})
		var args []ast.Expr
		for i, a := range g.Call.Args {
			an := fmt.Sprintf("vsArg%d_%d", goCounter, i)
			pre = append(pre, &ast.AssignStmt{Lhs: []ast.Expr{ast.NewIdent(an)}, Tok: token.DEFINE, Rhs: []ast.Expr{a}})
			args = append(args, ast.NewIdent(an))
		}
		inner := &ast.CallExpr{Fun: ast.NewIdent(fn), Args: args, Ellipsis: g.Call.Ellipsis}
		if g.Call.Ellipsis != token.NoPos {
			inner.Ellipsis = 1
		}
		lit := &ast.FuncLit{Type: &ast.FuncType{Params: &ast.FieldList{}}, Body: &ast.BlockStmt{List: append(enter, &ast.ExprStmt{X: inner})}}
		ng := &ast.GoStmt{Call: call(lit)}
		seen[ng] = true
		return &ast.BlockStmt{List: append(pre, ng)}
	})
	return n
}

// R3
func insertStep(f *ast.File) int {
	n := 0
	for _, d := range f.Decls {
		fd, ok := d.(*ast.FuncDecl)
		if !ok || fd.Name.Name != "RunFromAddress" || fd.Recv == nil || fd.Body == nil {
			continue
		}
		ast.Inspect(fd.Body, func(x ast.Node) bool {
			fs, ok := x.(*ast.ForStmt)
			if !ok || fs.Cond == nil {
				return true
			}
			mentions := false
			ast.Inspect(fs.Cond, func(y ast.Node) bool {
				if id, ok := y.(*ast.Ident); ok && id.Name == "programCounter" {
					mentions = true
				}
				return true
			})
			if mentions {
				fs.Body.List = append([]ast.Stmt{&ast.ExprStmt{X: call(sel(simName, "Step"))}}, fs.Body.List...)
				n++
			}
			return true
		})
	}
	return n
}

// R4: for k, v := range X.routes {body}  ->  for _, k := range verifsim.MapKeys(X.routes) { v := X.routes[k]; body }
func rewriteMapRange(f *ast.File) int {
	n := 0
	ast.Inspect(f, func(x ast.Node) bool {
		rs, ok := x.(*ast.RangeStmt)
		if !ok {
			return true
		}
		se, ok := rs.X.(*ast.SelectorExpr)
		if !ok || se.Sel.Name != "routes" || rs.Tok != token.DEFINE {
			return true
		}
		key := rs.Key
		val := rs.Value
		if key == nil {
			return true
		}
		kid, ok := key.(*ast.Ident)
		if !ok {
			return true
		}
		if kid.Name == "_" {
			kid = ast.NewIdent("vsKey")
		}
		var pre []ast.Stmt
		if val != nil {
			if vid, ok := val.(*ast.Ident); ok && vid.Name != "_" {
				pre = append(pre, &ast.AssignStmt{Lhs: []ast.Expr{vid}, Tok: token.DEFINE,
					Rhs: []ast.Expr{&ast.IndexExpr{X: rs.X, Index: ast.NewIdent(kid.Name)}}})
				pre = append(pre, &ast.AssignStmt{Lhs: []ast.Expr{ast.NewIdent("_")}, Tok: token.ASSIGN, Rhs: []ast.Expr{ast.NewIdent(vid.Name)}})
			}
		}
		rs.Key = ast.NewIdent("_")
		rs.Value = kid
		rs.X = call(sel(simName, "MapKeys"), rs.X)
		rs.Body.List = append(pre, rs.Body.List...)
		n++
		return true
	})
	return n
}

// R7: channel statements in a listed file become scheduled:
//
//	ch <- v              ->  verifsim.Yield; for !sent { select { case ch <- v: sent = true; default: verifsim.Blocked } }; verifsim.Progress()
//	x, ok := <-ch  etc.  ->  x, ok := verifsim.Recv2(ch)   (Recv1 for the one-value forms)
//	close(ch)            ->  close(ch); verifsim.Progress()
//
// Only statements of exactly these shapes are rewritten (select statements written in
// the source are left alone).
func rewriteChan(f *ast.File) int {
	n := 0
	ctr := 0
	lit := func(s string) ast.Expr { return &ast.BasicLit{Kind: token.STRING, Value: strconv.Quote(s)} }
	seen := map[ast.Stmt]bool{}
	rewriteStmtLists(f, func(s ast.Stmt) ast.Stmt {
		if seen[s] {
			return nil
		}
		seen[s] = true
		switch t := s.(type) {
		case *ast.SendStmt:
			n++
			ctr++
			flag := fmt.Sprintf("vsSent%d", ctr)
			selst := &ast.SelectStmt{Body: &ast.BlockStmt{List: []ast.Stmt{
				&ast.CommClause{Comm: t, Body: []ast.Stmt{&ast.AssignStmt{Lhs: []ast.Expr{ast.NewIdent(flag)}, Tok: token.ASSIGN, Rhs: []ast.Expr{ast.NewIdent("true")}}}},
				&ast.CommClause{Comm: nil, Body: []ast.Stmt{&ast.ExprStmt{X: call(sel(simName, "ChanBlocked"), lit("chan-send"))}}},
			}}}
			return &ast.BlockStmt{List: []ast.Stmt{
				&ast.ExprStmt{X: call(sel(simName, "Yield"), lit("chan-send"))},
				&ast.ForStmt{
					Init: &ast.AssignStmt{Lhs: []ast.Expr{ast.NewIdent(flag)}, Tok: token.DEFINE, Rhs: []ast.Expr{ast.NewIdent("false")}},
					Cond: &ast.UnaryExpr{Op: token.NOT, X: ast.NewIdent(flag)},
					Body: &ast.BlockStmt{List: []ast.Stmt{selst}},
				},
				&ast.ExprStmt{X: call(sel(simName, "Progress"))},
			}}
		case *ast.AssignStmt:
			if len(t.Rhs) == 1 {
				if u, ok := t.Rhs[0].(*ast.UnaryExpr); ok && u.Op == token.ARROW {
					n++
					helper := "Recv1"
					if len(t.Lhs) == 2 {
						helper = "Recv2"
					}
					t.Rhs[0] = call(sel(simName, helper), u.X)
					return t
				}
			}
		case *ast.ExprStmt:
			if u, ok := t.X.(*ast.UnaryExpr); ok && u.Op == token.ARROW {
				n++
				t.X = call(sel(simName, "Recv1"), u.X)
				return t
			}
			if c, ok := t.X.(*ast.CallExpr); ok {
				if id, ok := c.Fun.(*ast.Ident); ok && id.Name == "close" && len(c.Args) == 1 {
					n++
					return &ast.BlockStmt{List: []ast.Stmt{t, &ast.ExprStmt{X: call(sel(simName, "Progress"))}}}
				}
			}
		}
		return nil
	})
	return n
}

// R6
func replaceValue(f *ast.File, name, val string) bool {
	expr, err := parser.ParseExpr(val)
	if err != nil {
		fatal("R6: bad value %q: %v", val, err)
	}
	for _, d := range f.Decls {
		gd, ok := d.(*ast.GenDecl)
		if !ok || (gd.Tok != token.CONST && gd.Tok != token.VAR) {
			continue
		}
		for _, s := range gd.Specs {
			vs := s.(*ast.ValueSpec)
			for i, id := range vs.Names {
				if id.Name == name && i < len(vs.Values) {
					vs.Values[i] = expr
					return true
				}
			}
		}
	}
	return false
}
