#!/bin/bash
# usage: tools/sweep.sh TIER SEED PROP...   — runs the checks one after the other (each uses all cores) and prints a one-screen summary.
# Meant for `vp run --with-repo -- tools/sweep.sh thorough 7 C08 C09 …` (uses $VP_RUN_REPO when set).
cd "$(dirname "$0")/.."
export GOFLAGS=-mod=mod GOPROXY=off GOSUMDB=off GOTOOLCHAIN=local
[ -n "$VP_RUN_REPO" ] && export VERIF_REPO=$VP_RUN_REPO
tier=$1; seed=$2; shift 2
mkdir -p .bin evidence replays
[ -x .bin/simrewrite ] || (cd tools/simrewrite && go1.26.8 build -o ../../.bin/simrewrite .) || exit 2
for p in "$@"; do
  echo "=== $p tier=$tier seed=$seed $(date +%T)"
  VERIF_SEED=$seed python3 check.py $p --tier $tier 2>&1 | grep -v "^      \|^  github\|^  runtime\|^$" | cut -c1-1500 | head -40
  echo "exit=${PIPESTATUS[0]} $p"
done
echo "=== done $(date +%T)"
