#!/usr/bin/env python3
"""Regenerate /verif/MANIFEST.json from simlib/configs.py (claimed checks) and the tables below."""
import json
import os
import sys

sys.path.insert(0, os.path.dirname(os.path.dirname(os.path.abspath(__file__))))
from simlib.allconfigs import CONFIGS  # noqa: E402

NA = {
    "C01": "Go-vs-Ego output equality is a pure function of program text and type mode; no schedule, clock, fault or stored history to simulate.",
    "C02": "Output equality across optimizer/register/constant-folding/cache settings is a pure function of (program, settings).",
    "C03": "The value and type of an arithmetic expression is a pure function of operands and mode.",
    "C04": "Strict-vs-relaxed output equality is a pure function of program text.",
    "C05": "Formatter correctness and idempotence is a pure function of source text.",
    "C06": "Literal denotation is a pure function of the literal's spelling.",
    "C07": "Crash-freedom over all source texts is input fuzzing; the only time in it is a run bound, not behaviour under a clock.",
    "C10": "try/catch/defer ordering is sequential control flow inside one deterministic program.",
    "C11": "Runtime wrappers versus Go functions are pure functions of their arguments.",
    "C12": "Profiling/trace/debugger-continue equivalence is a pure function of (program, flag).",
    "C13": "Test isolation in `ego test` is sequential processing of one file.",
    "C14": "SQL-injection freedom is a function from request parameters to executed SQL; no interleaving or fault in the statement.",
    "C15": "Table-usage extraction versus authorization is a pure function of SQL text and a grant set.",
    "C16": "SQL reformat round trip is a pure function of SQL text.",
    "C18": "Row value round trip is a pure function of (column type, value).",
    "C19": "JSON minify/compress fidelity is a pure function of the JSON value.",
    "C20": "The route gate is a pure function of (route declaration, credential form, permissions); its time/history dependent credential states are decided under C21/C22/C24.",
    "C26": "Sandbox confinement is stated for static path spellings and link layouts; no concurrent mutation is in the statement.",
    "C27": "Decrypt-rejects-forgery is a pure function of (bytes, key).",
    "C33": "JS minifier equivalence is a pure function of script text.",
    "C34": "CSS minifier token preservation is a pure function of stylesheet text.",
    "C35": "langlint table preservation is a pure function of file content (its crash behaviour is C36).",
    "C37": "Duration print/parse round trip is a pure function of a duration.",
    "C38": "Message-table completeness is a static lookup over keys x languages.",
    "C39": "Asset serving is a pure function of (path, Range header, file tree).",
    "C40": "Handler crash-freedom is request fuzzing; no schedule or fault in the statement.",
    "C41": "In-process vs child-process equality ranges over inputs/configurations; the child transport is exec plus a real TCP socket that a one-process simulator cannot own without replacing the thing compared.",
    "C44": "Secret elision is a pure function of (endpoint, stored configuration).",
}

PENDING_REASON = "a deterministic-simulation check is designed in DESIGN.md §3 but is not built (or not yet trustworthy) in this commit, so the property is not claimed"

ALL = ["C%02d" % i for i in range(1, 45)]

TRUST = ("trusts Go 1.26.8 testing/synctest (+ race detector where used), the scheduler/shims in /verif/sim (guarded by the "
         "determinism self-test, and the race self-test when a race binary runs, on every invocation), and the reference "
         "model/oracle in the property's harness under /verif/props")


def main():
    checks = []
    for prop in sorted(CONFIGS):
        cfg = CONFIGS[prop]
        checks.append({
            "property_id": prop,
            "quick_cmd": "python3 /verif/check.py %s --tier quick" % prop,
            "thorough_cmd": "python3 /verif/check.py %s --tier thorough" % prop,
            "evidence_file": "/verif/evidence/%s.json" % prop,
            "replay_cmd_template": "python3 /verif/check.py %s --replay {path}" % prop,
            "engine": cfg["engine"],
            "level_claimed": {"category": cfg["level"], "text": cfg["level_text"], "design_ref": "DESIGN.md §3 " + prop},
            "level_note": cfg.get("level_note", TRUST),
            "technique": cfg["technique"],
        })
    na = []
    for p in ALL:
        if p in CONFIGS:
            continue
        na.append({"property_id": p, "reason": NA.get(p, PENDING_REASON)})
    m = {
        "version": 1,
        "setup_cmd": "bash /verif/setup.sh",
        "hooks": {
            "guard": "verifsim",
            "enable": "no source hooks: every check generates its instrumentation from /repo's current working tree at run time "
                      "(tools/simrewrite: import swaps sync/database-sql/os -> shims, go-statement wrapping, dispatch-loop step, "
                      "map-order seam, cost knobs) and applies it with `go test -c -overlay <json> -modfile <scratch go.mod>`; "
                      "/repo is never written",
            "baseline_off_cmd": "cd /repo && GOFLAGS=-mod=mod GOPROXY=off GOSUMDB=off GOTOOLCHAIN=local go1.26.8 test -vet=off -count=1 -json ./...",
            "source_commits": [],
            "add_only": True,
        },
        "engines": [
            {"name": cfg["engine"], "path": "/verif/props/" + cfg["harness"], "serves_properties": [prop],
             "kind_free_text": "harness on the shared simulator in /verif/sim (seeded scheduler on testing/synctest bubbles, "
                               "sync shim, fault-injecting shims, case/replay/shrink runner)"}
            for prop, cfg in sorted(CONFIGS.items())
        ],
        "checks": checks,
        "not_applicable": na,
        "notes": "Technique family: deterministic simulation with fault injection (DESIGN.md). Exit codes: 0 held / 1 VIOLATION "
                 "(minimised replay file, reproduced in two fresh processes) / 2 harness trouble (never a verdict). "
                 "KNOWN_FINDINGS.txt lists recorded findings and the defects repaired by fix: commits in /repo.",
    }
    with open(os.path.join(os.path.dirname(os.path.dirname(os.path.abspath(__file__))), "MANIFEST.json"), "w") as f:
        json.dump(m, f, indent=1)
    print("MANIFEST.json: %d checks, %d not applicable" % (len(checks), len(na)))


if __name__ == "__main__":
    main()
