#!/usr/bin/env python3
"""Validate MANIFEST.json and every evidence file against the harness schemas (uses python3-vt)."""
import glob, json, sys
import jsonschema
ok = True
m = json.load(open('/verif/MANIFEST.json'))
jsonschema.validate(m, json.load(open('/root/.vp/MANIFEST.schema.json')))
ids = [json.loads(l)['id'] for l in open('/verif/properties.jsonl')]
claimed = [c['property_id'] for c in m['checks']]
na = [n['property_id'] for n in m.get('not_applicable', [])]
assert sorted(claimed + na) == sorted(ids), (set(ids) - set(claimed) - set(na), set(claimed) & set(na))
es = json.load(open('/root/.vp/EVIDENCE.schema.json'))
for p in sorted(glob.glob('/verif/evidence/*.json')):
    try:
        jsonschema.validate(json.load(open(p)), es)
        print('ok', p)
    except Exception as ex:
        ok = False
        print('INVALID', p, str(ex)[:300])
print('manifest ok: %d checks, %d not applicable' % (len(claimed), len(na)))
sys.exit(0 if ok else 1)
