package vmharness

// Shared helper of the VM engines (C08, C09): compile and run one Ego program in-process
// the way `ego run` does, with console output captured.

import (
	"fmt"
	"strings"

	"github.com/tucats/ego/internal/builtins"
	"github.com/tucats/ego/internal/cli/settings"
	"github.com/tucats/ego/internal/defs"
	"github.com/tucats/ego/internal/language/bytecode"
	"github.com/tucats/ego/internal/language/compiler"
	"github.com/tucats/ego/internal/language/data"
	"github.com/tucats/ego/internal/language/symbols"
	"github.com/tucats/ego/internal/language/tokenizer"
)

// VMOptions of one execution.
type VMOptions struct {
	Optimize      bool
	AllocSize     int
	TypeMode      string // "dynamic" | "relaxed" | "strict"
	DeepScope     bool   // ego.runtime.deep.scope (the default of `ego run`, `ego test` and the server)
	Faulty        bool   // make a native function `vsboom()` available that hits a Go run-time panic (injected fault)
	RuntimePanics bool   // ego.runtime.panics: @fail re-panics at the Go level
}

// RunProgram compiles src (a complete `package main` program) and runs main().
func RunProgram(name, src string, opt VMOptions) (output string, compileErr, runErr error) {
	if opt.AllocSize >= symbols.MinSymbolAllocationSize {
		symbols.SymbolAllocationSize = opt.AllocSize
	}
	if opt.TypeMode == "" {
		opt.TypeMode = "dynamic"
	}
	settings.SetDefault(defs.StaticTypesSetting, opt.TypeMode)
	settings.SetDefault(defs.ExtensionsEnabledSetting, defs.True)
	if opt.Optimize {
		settings.SetDefault(defs.OptimizerSetting, "1")
	} else {
		settings.SetDefault(defs.OptimizerSetting, "0")
	}

	if opt.DeepScope {
		settings.SetDefault(defs.RuntimeDeepScopeSetting, defs.True)
	} else {
		settings.SetDefault(defs.RuntimeDeepScopeSetting, defs.False)
	}
	if opt.RuntimePanics {
		settings.SetDefault(defs.RuntimePanicsSetting, defs.True)
	} else {
		settings.SetDefault(defs.RuntimePanicsSetting, defs.False)
	}

	symbolTable := symbols.NewSymbolTable("file " + name).Shared(true)
	if opt.Faulty {
		// fault injection at a runtime-function seam: a native function of the kind the
		// runtime packages register, which runs into a Go run-time panic
		symbolTable.Root().SetAlways("vsboom", func(s *symbols.SymbolTable, args data.List) (any, error) {
			var a []int
			i := args.Len() + 3

			return a[i], nil
		})
	}
	symbolTable.SetAlways(defs.ModeVariable, "run")
	symbolTable.Root().SetAlways(defs.MainVariable, defs.Main)
	builtins.AddBuiltins(symbolTable.Root())

	comp := compiler.New(name).SetRoot(&symbols.RootSymbolTable)
	compiler.AddStandard(symbolTable)
	if err := comp.AutoImport(true, symbolTable); err != nil {
		return "", fmt.Errorf("autoimport: %w", err), nil
	}
	for _, p := range compiler.GetAutoImportedPackages() {
		comp.DefineGlobalSymbol(p)
	}

	if !strings.Contains(src, "@entrypoint") {
		src += "\n@entrypoint main\n"
	}
	bc, err := comp.Compile(name, tokenizer.New(src, true))
	if err != nil {
		return "", err, nil
	}
	comp.Close()
	ctx := bytecode.NewContext(symbolTable, bc)
	ctx.EnableConsoleOutput(false)
	runErr = ctx.Run()
	return ctx.GetOutput(), nil, runErr
}
