package commands

// C32 — Route resolution is deterministic and most specific (engine route-order).
// In-package harness mapped into internal/commands (to reach the server's real route
// table, defineStaticRoutes). DESIGN.md §3 C32.
//
// The only nondeterminism FindRoute meets is Go's randomised map iteration over the route
// table. Rule R4 puts those loops behind sim.MapKeys, so one order-seed decides the
// iteration order exactly. A case = a route table (the real one, or a generated one) +
// request (method, path) list; it is resolved under K iteration orders and, for generated
// tables, R registration orders; every resolution of one request must give the same
// (route, status), and the chosen route must have the fewest path variables among the
// routes that match (match relation = what FindRoute says on the singleton table).

import (
	"fmt"
	"net/http"
	"sort"
	"strings"
	"testing"

	"github.com/tucats/ego/internal/router"
	"github.com/tucats/ego/internal/verifsim/sim"
	"github.com/tucats/ego/internal/verifsim/simrun"
)

func TestVerifSim(t *testing.T) { simrun.Main(t, c32Engine{}) }

type c32Engine struct{}

func (c32Engine) Name() string     { return "route-order" }
func (c32Engine) Property() string { return "C32" }

var c32Methods = []string{"GET", "POST", router.AnyMethod}

func c32Handler(s *router.Session, w http.ResponseWriter, r *http.Request) int { return 200 }

// Generate: knob real=1 -> the server's table; else ops "route" S=[pattern, method]. Ops "req" S=[method, path].
func (c32Engine) Generate(seed uint64, tier string) *simrun.Case {
	r := sim.NewRand(seed)
	c := &simrun.Case{Prop: "C32", Engine: "route-order", Seed: seed, SchedSeed: sim.Mix(seed, 32), Knobs: map[string]int64{}}
	c.Knobs["orders"] = 8
	if tier == "thorough" {
		c.Knobs["orders"] = 32
	}
	segs := []string{"a", "b", "c", "tables", "{{x}}", "{{y}}", "{{z}}"}
	var patterns []string
	if r.Chance(1, 5) {
		c.Knobs["real"] = 1
	} else {
		n := 2 + r.Intn(7)
		seen := map[string]bool{}
		for len(patterns) < n {
			depth := 1 + r.Intn(3)
			p := ""
			used := map[string]bool{}
			for d := 0; d < depth; d++ {
				s := segs[r.Intn(len(segs))]
				if strings.HasPrefix(s, "{{") {
					if used[s] {
						s = "a"
					}
					used[s] = true
				}
				p += "/" + s
			}
			switch r.Intn(10) {
			case 0:
				p += "/"
			case 1:
				p += "/*"
			case 2:
				p = "/"
			case 3, 4:
				// a glob variable takes all remaining segments (the server's own /assets/{{item...}})
				p += "/{{rest...}}"
			}
			m := c32Methods[r.Intn(len(c32Methods))]
			if seen[p+" "+m] {
				continue
			}
			seen[p+" "+m] = true
			patterns = append(patterns, p)
			c.Ops = append(c.Ops, simrun.Op{K: "route", S: []string{p, m}})
		}
	}
	// requests derived from the patterns (filled at execution time for the real table)
	nreq := 12 + r.Intn(12)
	c.Knobs["nreq"] = int64(nreq)
	c.Knobs["reqseed"] = int64(r.Uint64() >> 1)
	return c
}

func c32Requests(patterns [][2]string, seed uint64, n int) [][2]string {
	r := sim.NewRand(seed)
	vals := []string{"a", "b", "c", "tables", "v1", "42", "x-y"}
	var out [][2]string
	for i := 0; i < n && len(patterns) > 0; i++ {
		p := patterns[r.Intn(len(patterns))]
		parts := strings.Split(p[0], "/")
		for j, s := range parts {
			if strings.HasPrefix(s, "{{") && strings.HasSuffix(s, "...}}") {
				parts[j] = vals[r.Intn(len(vals))]
				for k := r.Intn(3); k > 0; k-- {
					parts[j] += "/" + vals[r.Intn(len(vals))]
				}
			} else if strings.HasPrefix(s, "{{") {
				parts[j] = vals[r.Intn(len(vals))]
			}
			if s == "*" {
				parts[j] = vals[r.Intn(len(vals))] + "/" + vals[r.Intn(len(vals))]
			}
		}
		path := strings.Join(parts, "/")
		switch r.Intn(8) {
		case 0: // perturb one segment
			if len(parts) > 1 {
				j := 1 + r.Intn(len(parts)-1)
				parts[j] = vals[r.Intn(len(vals))]
				path = strings.Join(parts, "/")
			}
		case 1:
			path = strings.TrimSuffix(path, "/")
		case 2:
			path += "/"
		case 3: // empty segment
			path = strings.Replace(path, "/", "//", 1)
		case 4:
			path += "/" + vals[r.Intn(len(vals))]
		}
		if path == "" {
			path = "/"
		}
		m := p[1]
		if m == router.AnyMethod || r.Chance(1, 4) {
			m = []string{"GET", "POST", "DELETE"}[r.Intn(3)]
		}
		out = append(out, [2]string{m, path})
	}
	return out
}

func c32Vars(endpoint string) int { return strings.Count(endpoint, "{{") }

var c32Real [][2]string

func (c32Engine) Execute(t *testing.T, c *simrun.Case, keepLog bool) *simrun.Outcome {
	out := &simrun.Outcome{}
	defer sim.SetMapOrder(0)
	var table [][2]string
	real := c.Knob("real", 0) == 1
	if real {
		if c32Real == nil {
			c32Real = defineStaticRoutes().VerifSimRoutes()
			sort.Slice(c32Real, func(i, j int) bool { return c32Real[i][0]+c32Real[i][1] < c32Real[j][0]+c32Real[j][1] })
		}
		table = c32Real
		out.Probe("real_route_table", 1)
	} else {
		for _, op := range c.Ops {
			if op.K == "route" {
				table = append(table, [2]string{op.Str(0), op.Str(1)})
			}
		}
	}
	if len(table) == 0 {
		out.Inconclusive = "empty table"
		return out
	}
	reqs := c32Requests(table, uint64(c.Knob("reqseed", 1)), int(c.Knob("nreq", 12)))
	build := func(order []int) *router.Router {
		rt := router.NewRouter("verifsim")
		for _, i := range order {
			rt.New(table[i][0], c32Handler, table[i][1])
		}
		return rt
	}
	ident := make([]int, len(table))
	for i := range ident {
		ident[i] = i
	}
	// singleton match relation
	sim.SetMapOrder(0)
	matches := func(rq [2]string, ri int) bool {
		rt := build([]int{ri})
		r, st := rt.FindRoute(rq[0], rq[1], false)
		return r != nil && st == http.StatusOK
	}
	orders := int(c.Knob("orders", 8))
	rr := sim.NewRand(uint64(c.Knob("reqseed", 1)) ^ 0x5bd1e995)
	var hist []string
	for qi, rq := range reqs {
		results := map[string][]string{}
		first := ""
		for k := 0; k < orders; k++ {
			order := append([]int{}, ident...)
			if k%2 == 1 { // a different registration order every second time
				for i := len(order) - 1; i > 0; i-- {
					j := rr.Intn(i + 1)
					order[i], order[j] = order[j], order[i]
				}
			}
			rt := build(order)
			oseed := uint64(k)*0x9E3779B97F4A7C15 + uint64(qi) + 1
			if k == 0 {
				oseed = 0 // canonical (sorted) order
			}
			sim.SetMapOrder(oseed)
			r, st := rt.FindRoute(rq[0], rq[1], false)
			res := fmt.Sprintf("%d %s", st, r.VerifSimRouteID())
			if k == 0 {
				first = res
			}
			results[res] = append(results[res], fmt.Sprintf("order#%d", k))
			out.Probe("resolutions", 1)
		}
		sim.SetMapOrder(0)
		hist = append(hist, rq[0]+" "+rq[1]+" -> "+first)
		if len(results) > 1 {
			var alts []string
			for r, os := range results {
				alts = append(alts, fmt.Sprintf("%q under %v", r, os))
			}
			sort.Strings(alts)
			out.Probe("order_dependent_requests", 1)
			out.Fail("C32/order-dependent", "request %s %s resolves differently depending on map iteration / registration order: %s; table: %v", rq[0], rq[1], strings.Join(alts, " ; "), c32TableString(table, real))
			continue
		}
		if strings.HasPrefix(first, "200 ") {
			out.Probe("resolved_200", 1)
			chosen := strings.SplitN(first, " ", 3)
			cv := c32Vars(chosen[2])
			nmatch := 0
			for ri, rt := range table {
				if rt[1]+" "+rt[0] == chosen[1]+" "+chosen[2] {
					continue
				}
				if c32Vars(rt[0]) < cv && matches(rq, ri) {
					out.Fail("C32/not-most-specific", "request %s %s resolved to %q (%d variables) although %q (%d variables) matches too; table: %v", rq[0], rq[1], chosen[1]+" "+chosen[2], cv, rt[1]+" "+rt[0], c32Vars(rt[0]), c32TableString(table, real))
				}
				nmatch++
			}
			if nmatch > 0 {
				out.Probe("requests_with_several_candidates_checked", 1)
			}
		}
	}
	out.Nontrivial = len(reqs) > 0
	out.Hash = simrun.HashStrings(0, append([]string{c32TableString(table, real)}, hist...)...)
	if keepLog {
		out.Log = append(out.Log, "table: "+c32TableString(table, false))
		out.Log = append(out.Log, hist...)
	}
	return out
}

func c32TableString(table [][2]string, real bool) string {
	if real {
		return fmt.Sprintf("<the server's real route table, %d routes>", len(table))
	}
	var s []string
	for _, r := range table {
		m := r[1]
		if m == router.AnyMethod {
			m = "ANY"
		}
		s = append(s, m+" "+r[0])
	}
	return strings.Join(s, ", ")
}

// WarmupRuns: nothing lazy matters here.
func (c32Engine) WarmupRuns() int { return 1 }
