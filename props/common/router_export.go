package router

// Harness-only addition to package router (non-test file mapped in by the overlay): lets
// harnesses in other packages reset the process-wide login rate limiter between simulated
// runs. Nothing here is used by repo code.

import (
	sync "github.com/tucats/ego/internal/verifsim/sync"
)

// VerifSimResetRateLimit forgets every failure record and re-arms the one-time pruner start.
func VerifSimResetRateLimit() {
	// (race builds: happens-before edge from the frozen pruner of the previous run, see props/C24/harness.go)
	if loginAttemptsMu.TryLock() {
		loginAttemptsMu.Unlock()
	}
	loginAttemptsMu = sync.Mutex{}
	loginAttempts = map[string]*loginRecord{}
	scanOnce = sync.Once{}
}
