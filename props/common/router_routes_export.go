package router

// Harness-only addition (non-test file mapped in by the overlay): list a router's routes.

// VerifSimRoutes returns (endpoint, method) of every registered route, unordered.
func (m *Router) VerifSimRoutes() [][2]string {
	var out [][2]string
	for sel := range m.routes {
		out = append(out, [2]string{sel.endpoint, sel.method})
	}
	return out
}

// VerifSimRouteID identifies a route returned by FindRoute.
func (r *Route) VerifSimRouteID() string {
	if r == nil {
		return "<nil>"
	}
	return r.method + " " + r.endpoint
}
