package caches

// Harness-only additions to package caches (mapped in by the overlay as a non-test file so
// that harnesses living in OTHER packages can reset the process-wide cache state between
// simulated runs). Nothing here is used by repo code.

import (
	"sort"

	sync "github.com/tucats/ego/internal/verifsim/sync"
)

// VerifSimReset discards every cache and re-arms the package as at process start.
func VerifSimReset() {
	cacheLock = sync.RWMutex{}
	onEvictMutex = sync.RWMutex{}
	cacheList = map[int]Cache{}
	expirationThreadRunning = map[int]bool{}
	active = true
	onEvict = nil
	OnPurge = nil
	sequenceNumber.Store(0)
}

// VerifSimShutdown purges every cache so that the sweeper goroutines exit at their next scan.
func VerifSimShutdown() {
	cacheLock.Lock()
	ids := make([]int, 0, len(cacheList))
	for id := range cacheList {
		ids = append(ids, id)
	}
	cacheLock.Unlock()
	sort.Ints(ids) // (map order is unseeded; sweepers of the purged classes run concurrently with this loop)
	for _, id := range ids {
		PurgeLocal(id)
	}
}

// VerifSimNode is the per-node part of this package's state (several simulated server
// nodes share one process; the scheduler swaps it in and out on a node switch).
type VerifSimNode struct {
	list    map[int]Cache
	running map[int]bool
}

func VerifSimNewNode() *VerifSimNode {
	return &VerifSimNode{list: map[int]Cache{}, running: map[int]bool{}}
}

// VerifSimSwitch saves the live state into from and installs to.
func VerifSimSwitch(from, to *VerifSimNode) {
	from.list, from.running = cacheList, expirationThreadRunning
	cacheList, expirationThreadRunning = to.list, to.running
}

// VerifSimHas reports, without sliding the expiry, whether the live state holds the entry.
func VerifSimHas(id int, key any) bool {
	c, ok := cacheList[id]
	if !ok {
		return false
	}
	_, ok = c.Items[key]
	return ok
}
