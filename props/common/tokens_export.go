package tokens

// Harness-only addition to package tokens (non-test file mapped in by the overlay).

import (
	sync "github.com/tucats/ego/internal/verifsim/sync"
)

// VerifSimReset forgets the revocation-store handle and re-arms the package mutex (a task
// abandoned by an earlier simulated run may have been parked while holding it).
func VerifSimReset() {
	mutex = sync.Mutex{}
	handle = nil
	connectionString = ""
	useCache = true
}
