package storeharness

// C30 — The resource store behaves like a keyed record set (engine store-hist).
// External harness package (virtual dir internal/verifsim/storeharness). DESIGN.md §3 C30.
//
// Real resources.Open/CreateIf/Insert/Read/ReadOne/Update/UpdateOne/Delete/DeleteOne/Sort on a
// real SQLite file, driven by seeded histories and compared operation by operation with an
// in-memory table. Durable-state dimension: close + reopen in the middle of a history, and
// two handles on one file used alternately. (No scheduler: the statement quantifies over
// histories only; this is the least simulator-specific of the claimed checks.)

import (
	"fmt"
	"os"
	"path/filepath"
	"sort"
	"strings"
	"testing"

	"github.com/google/uuid"

	"github.com/tucats/ego/internal/resources"
	"github.com/tucats/ego/internal/verifsim/sim"
	"github.com/tucats/ego/internal/verifsim/simrun"
)

func TestVerifSim(t *testing.T) { simrun.Main(t, c30Engine{}) }

type c30Engine struct{}

func (c30Engine) Name() string     { return "store-hist" }
func (c30Engine) Property() string { return "C30" }
func (c30Engine) WarmupRuns() int  { return 1 }

// The record type: string, int, bool, uuid, json ([]string) and float fields.
type Rec struct {
	Name  string
	Count int
	Flag  bool
	ID    uuid.UUID
	Tags  []string
	Ratio float64
}

var c30Names = []string{"a", "b", "B", "ab", "", " a", "zz", "é", "a'b", "x\"y"}
var c30Counts = []int{-1, 0, 1, 2, 10, 1 << 40}
var c30IDs = []uuid.UUID{uuid.Nil, uuid.MustParse("00000000-0000-0000-0000-000000000001"), uuid.MustParse("6ba7b810-9dad-11d1-80b4-00c04fd430c8"), uuid.MustParse("ffffffff-ffff-ffff-ffff-ffffffffffff")}
var c30Tags = [][]string{{}, {"x"}, {"x", "y,z"}, {"a\"b"}}
var c30Ratios = []float64{0, 1.5, -2.25, 1e10}
var c30Cols = []string{"Name", "Count", "Flag", "ID", "Ratio"}
var c30Ops = []string{"=", "<>", "<", ">"}

func c30Rec(a []int64) Rec {
	g := func(i int) int { return int(a[i]) }
	return Rec{Name: c30Names[g(0)%len(c30Names)], Count: c30Counts[g(1)%len(c30Counts)], Flag: g(2)%2 == 1, ID: c30IDs[g(3)%len(c30IDs)],
		Tags: c30Tags[g(4)%len(c30Tags)], Ratio: c30Ratios[g(5)%len(c30Ratios)]}
}

// Ops: insert A=[rec x6] ; read A=[nf, (col,op,val)x nf] ; update A=[rec x6, nf, filters] ; delete A=[nf, filters] (nf=0: all)
// readone/deleteone A=[name idx] ; updateone A=[rec x6] ; sort A=[ncols, cols...] ; reopen ; switch (use the other handle)
func (c30Engine) Generate(seed uint64, tier string) *simrun.Case {
	r := sim.NewRand(seed)
	c := &simrun.Case{Prop: "C30", Engine: "store-hist", Seed: seed, Knobs: map[string]int64{}}
	c.Knobs["pk"] = int64(r.Intn(2)) // 1: Name is the primary key
	n := 10 + r.Intn(30)
	rec := func() []int64 {
		return []int64{int64(r.Intn(len(c30Names))), int64(r.Intn(len(c30Counts))), int64(r.Intn(2)), int64(r.Intn(len(c30IDs))), int64(r.Intn(len(c30Tags))), int64(r.Intn(len(c30Ratios)))}
	}
	filters := func(max int) []int64 {
		nf := r.Intn(max + 1)
		a := []int64{int64(nf)}
		for i := 0; i < nf; i++ {
			a = append(a, int64(r.Intn(len(c30Cols))), int64(r.Intn(len(c30Ops))), int64(r.Intn(12)))
		}
		// trailing argument: position+1 at which a nil *Filter is passed among the filters (0 = none). Callers in the
		// server build filter lists in which any entry may be nil ("no restriction on this column"); the store skips them.
		a = append(a, []int64{0, 0, 0, 1, 2, 3}[r.Intn(6)])
		return a
	}
	for i := 0; i < n; i++ {
		switch x := r.Intn(100); {
		case x < 30:
			c.Ops = append(c.Ops, simrun.Op{K: "insert", A: rec()})
		case x < 55:
			c.Ops = append(c.Ops, simrun.Op{K: "read", A: filters(3)})
		case x < 65:
			c.Ops = append(c.Ops, simrun.Op{K: "update", A: append(rec(), filters(2)...)})
		case x < 73:
			f := filters(2)
			if f[0] == 0 && r.Chance(3, 4) {
				f = []int64{1, 0, 0, int64(r.Intn(12)), []int64{0, 0, 1, 2}[r.Intn(4)]}
			}
			c.Ops = append(c.Ops, simrun.Op{K: "delete", A: f})
		case x < 78:
			c.Ops = append(c.Ops, simrun.Op{K: "readone", A: []int64{int64(r.Intn(len(c30Names)))}})
		case x < 82:
			c.Ops = append(c.Ops, simrun.Op{K: "deleteone", A: []int64{int64(r.Intn(len(c30Names)))}})
		case x < 86:
			c.Ops = append(c.Ops, simrun.Op{K: "updateone", A: rec()})
		case x < 91:
			ns := r.Intn(3)
			a := []int64{int64(ns)}
			for j := 0; j < ns; j++ {
				a = append(a, int64(r.Intn(len(c30Cols))))
			}
			c.Ops = append(c.Ops, simrun.Op{K: "sort", A: a})
		case x < 95:
			c.Ops = append(c.Ops, simrun.Op{K: "reopen"})
		default:
			c.Ops = append(c.Ops, simrun.Op{K: "switch"})
		}
	}
	return c
}

type c30Filter struct {
	col, op string
	val     any
}

func c30Val(col string, v int64) any {
	switch col {
	case "Name":
		return c30Names[int(v)%len(c30Names)]
	case "Count":
		return c30Counts[int(v)%len(c30Counts)]
	case "Flag":
		return v%2 == 1
	case "ID":
		return c30IDs[int(v)%len(c30IDs)]
	default:
		return c30Ratios[int(v)%len(c30Ratios)]
	}
}

func c30Filters(a []int64) []c30Filter {
	if len(a) == 0 {
		return nil
	}
	nf := int(a[0])
	var fs []c30Filter
	for i := 0; i < nf && 1+3*i+2 < len(a); i++ {
		col := c30Cols[int(a[1+3*i])%len(c30Cols)]
		fs = append(fs, c30Filter{col, c30Ops[int(a[2+3*i])%len(c30Ops)], c30Val(col, a[3+3*i])})
	}
	return fs
}

func c30Cmp(col string, rec Rec, v any) int {
	switch col {
	case "Name":
		return strings.Compare(rec.Name, v.(string))
	case "Count":
		x := v.(int)
		switch {
		case rec.Count < x:
			return -1
		case rec.Count > x:
			return 1
		}
		return 0
	case "Flag":
		a, b := 0, 0
		if rec.Flag {
			a = 1
		}
		if v.(bool) {
			b = 1
		}
		return a - b
	case "ID":
		return strings.Compare(rec.ID.String(), v.(uuid.UUID).String())
	default:
		x := v.(float64)
		switch {
		case rec.Ratio < x:
			return -1
		case rec.Ratio > x:
			return 1
		}
		return 0
	}
}

func c30Match(rec Rec, fs []c30Filter) bool {
	for _, f := range fs {
		c := c30Cmp(f.col, rec, f.val)
		ok := false
		switch f.op {
		case "=":
			ok = c == 0
		case "<>":
			ok = c != 0
		case "<":
			ok = c < 0
		case ">":
			ok = c > 0
		}
		if !ok {
			return false
		}
	}
	return true
}

func c30Key(r Rec) string {
	return fmt.Sprintf("%q|%d|%v|%s|%q|%v", r.Name, r.Count, r.Flag, r.ID, r.Tags, r.Ratio)
}

func (c30Engine) Execute(t *testing.T, c *simrun.Case, keepLog bool) *simrun.Outcome {
	out := &simrun.Outcome{}
	dir, err := os.MkdirTemp(os.Getenv("TMPDIR"), "c30-")
	if err != nil {
		out.HarnessError = err.Error()
		return out
	}
	defer os.RemoveAll(dir)
	conn := "sqlite3://" + filepath.Join(dir, "store.db")
	// (the store always keys the table: without an explicit choice CreateIf falls back to a
	// default primary key, which for this record type is Name as well)
	pk := true
	open := func() (*resources.ResHandle, error) {
		h, err := resources.Open(Rec{}, "recs", conn)
		if err != nil {
			return nil, err
		}
		if pk {
			h.SetPrimaryKey("Name")
		}
		if err := h.CreateIf(); err != nil {
			return nil, err
		}
		return h, nil
	}
	hs := [2]*resources.ResHandle{}
	for i := range hs {
		if hs[i], err = open(); err != nil {
			out.HarnessError = "open: " + err.Error()
			return out
		}
	}
	cur := 0
	var model []Rec
	var sortCols [2][]string
	var hist []string
	mk := func(h *resources.ResHandle, fs []c30Filter, nilpos int) []*resources.Filter {
		var out []*resources.Filter
		for k, f := range fs {
			if nilpos == k+1 {
				out = append(out, nil)
			}
			switch f.op {
			case "=":
				out = append(out, h.Equals(f.col, f.val))
			case "<>":
				out = append(out, h.NotEquals(f.col, f.val))
			case "<":
				out = append(out, h.LessThan(f.col, f.val))
			default:
				out = append(out, h.GreaterThan(f.col, f.val))
			}
		}
		if nilpos > len(fs) {
			out = append(out, nil)
		}
		return out
	}
	// nilPos extracts the trailing nil-position argument of a filter argument list [nf, (col,op,val) x nf, nilpos]
	nilPos := func(a []int64) int {
		if len(a) == 0 {
			return 0
		}
		if i := 1 + 3*int(a[0]); i < len(a) {
			return int(a[i])
		}
		return 0
	}
	fail := func(i int, op simrun.Op, format string, a ...any) {
		out.Fail("C30/"+strings.SplitN(format, ":", 2)[0], "op %d (%s): "+format+" ; history so far: %s", append([]any{i, op}, append(a, strings.Join(hist, " | "))...)...)
	}
	for i, op := range c.Ops {
		if out.Violation != "" {
			break
		}
		h := hs[cur]
		switch op.K {
		case "insert":
			rec := c30Rec(op.A)
			dup := false
			if pk {
				for _, m := range model {
					if m.Name == rec.Name {
						dup = true
					}
				}
			}
			err := h.Insert(&rec)
			hist = append(hist, fmt.Sprintf("insert %s -> %v", c30Key(rec), err))
			switch {
			case dup && err == nil:
				fail(i, op, "duplicate-key-accepted: a second record with primary key %q was inserted", rec.Name)
			case !dup && err != nil:
				fail(i, op, "insert-failed: %v", err)
			case !dup:
				model = append(model, rec)
			}
		case "read":
			fs := c30Filters(op.A)
			got, err := h.Read(mk(h, fs, nilPos(op.A))...)
			var want []Rec
			for _, m := range model {
				if c30Match(m, fs) {
					want = append(want, m)
				}
			}
			hist = append(hist, fmt.Sprintf("read %v -> %d rows, %v", fs, len(got), err))
			if err != nil {
				fail(i, op, "read-failed: %v", err)
				break
			}
			var gk, wk []string
			var recs []Rec
			for _, g := range got {
				r, ok := g.(*Rec)
				if !ok {
					fail(i, op, "read-wrong-type: %T", g)
					break
				}
				recs = append(recs, *r)
				gk = append(gk, c30Key(*r))
			}
			for _, w := range want {
				wk = append(wk, c30Key(w))
			}
			// order, when requested
			if cols := sortCols[cur]; len(cols) > 0 {
				for j := 1; j < len(recs); j++ {
					for _, col := range cols {
						var v any
						switch col {
						case "Name":
							v = recs[j].Name
						case "Count":
							v = recs[j].Count
						case "Flag":
							v = recs[j].Flag
						case "ID":
							v = recs[j].ID
						default:
							v = recs[j].Ratio
						}
						cmp := c30Cmp(col, recs[j-1], v)
						if cmp > 0 {
							fail(i, op, "read-not-sorted: rows %d and %d are out of order on %s (sort %v)", j-1, j, col, cols)
						}
						if cmp != 0 {
							break
						}
					}
				}
				out.Probe("sorted_reads", 1)
			}
			sort.Strings(gk)
			sort.Strings(wk)
			if strings.Join(gk, "\n") != strings.Join(wk, "\n") {
				fail(i, op, "read-differs: filters %v returned %v, an in-memory table returns %v", fs, gk, wk)
			}
			if len(fs) > 0 && len(want) > 0 && len(want) < len(model) {
				out.Probe("selective_reads", 1)
			}
		case "update":
			rec := c30Rec(op.A[:6])
			fs := c30Filters(op.A[6:])
			err := h.Update(&rec, mk(h, fs, nilPos(op.A[6:]))...)
			hist = append(hist, fmt.Sprintf("update %v := %s -> %v", fs, c30Key(rec), err))
			// every matching row becomes rec, Name included: the key stays unique only if at most
			// one row matches and no other row already has that name; otherwise the statement
			// must fail as a whole
			nmatch, clash := 0, false
			for _, m := range model {
				if c30Match(m, fs) {
					nmatch++
				} else if m.Name == rec.Name {
					clash = true
				}
			}
			if nmatch > 1 || (nmatch == 1 && clash) {
				if err == nil {
					fail(i, op, "update-broke-key: an update that makes two records share the key %q succeeded", rec.Name)
				}
				out.Probe("constraint_rejected_updates", 1)
				break
			}
			if err != nil {
				fail(i, op, "update-failed: %v", err)
				break
			}
			for j := range model {
				if c30Match(model[j], fs) {
					model[j] = rec
				}
			}
		case "delete":
			fs := c30Filters(op.A)
			n, err := h.Delete(mk(h, fs, nilPos(op.A))...)
			var keep []Rec
			for _, m := range model {
				if !c30Match(m, fs) {
					keep = append(keep, m)
				}
			}
			hist = append(hist, fmt.Sprintf("delete %v -> %d, %v", fs, n, err))
			if err != nil {
				fail(i, op, "delete-failed: %v", err)
				break
			}
			if int(n) != len(model)-len(keep) {
				fail(i, op, "delete-count: removed %d records, an in-memory table removes %d", n, len(model)-len(keep))
			}
			model = keep
		case "readone", "deleteone":
			if !pk {
				break
			}
			name := c30Names[int(op.Arg(0))%len(c30Names)]
			idx := -1
			for j, m := range model {
				if m.Name == name {
					idx = j
				}
			}
			if op.K == "readone" {
				got, err := h.ReadOne(name)
				hist = append(hist, fmt.Sprintf("readone %q -> %v", name, err))
				switch {
				case idx < 0 && err == nil:
					fail(i, op, "readone-phantom: key %q is not in the table but ReadOne returned %v", name, got)
				case idx >= 0 && err != nil:
					fail(i, op, "readone-missing: key %q is in the table but ReadOne failed: %v", name, err)
				case idx >= 0:
					if r, ok := got.(*Rec); !ok || c30Key(*r) != c30Key(model[idx]) {
						fail(i, op, "readone-differs: key %q returned %v, the table holds %s", name, got, c30Key(model[idx]))
					}
				}
			} else {
				err := h.DeleteOne(name)
				hist = append(hist, fmt.Sprintf("deleteone %q -> %v", name, err))
				switch {
				case idx < 0 && err == nil:
					fail(i, op, "deleteone-phantom: key %q is not in the table but DeleteOne succeeded", name)
				case idx >= 0 && err != nil:
					fail(i, op, "deleteone-failed: %v", err)
				case idx >= 0:
					model = append(model[:idx], model[idx+1:]...)
				}
			}
		case "updateone":
			if !pk {
				break
			}
			rec := c30Rec(op.A)
			err := h.UpdateOne(&rec)
			hist = append(hist, fmt.Sprintf("updateone %s -> %v", c30Key(rec), err))
			if err != nil {
				fail(i, op, "updateone-failed: %v", err)
				break
			}
			for j := range model {
				if model[j].Name == rec.Name {
					model[j] = rec
				}
			}
		case "sort":
			var cols []string
			for j := 0; j < int(op.Arg(0)) && 1+j < len(op.A); j++ {
				cols = append(cols, c30Cols[int(op.A[1+j])%len(c30Cols)])
			}
			h.Sort(cols...)
			sortCols[cur] = cols
		case "reopen":
			// durable state only: both handles are closed and the file is opened again
			for j := range hs {
				hs[j].Close()
			}
			for j := range hs {
				if hs[j], err = open(); err != nil {
					out.HarnessError = "reopen: " + err.Error()
					return out
				}
				sortCols[j] = nil
			}
			hist = append(hist, "reopen")
			out.Probe("reopens", 1)
		case "switch":
			cur = 1 - cur
			out.Probe("handle_switches", 1)
		}
	}
	for j := range hs {
		hs[j].Close()
	}
	out.Nontrivial = len(hist) >= 4
	out.Probe("operations", len(hist))
	out.Hash = simrun.HashStrings(0, hist...)
	if keepLog {
		out.Log = append(out.Log, hist...)
	}
	return out
}
