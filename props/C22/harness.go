package oauth

// C22 — JWT bearer tokens are verified and revocable (engine jwt-hist).
// In-package harness mapped into internal/server/oauth. DESIGN.md §3 C22.
//
// Real ValidateJWT / parseAndValidateJWT / key selection / JWKS cache and refresh logic and
// real golang-jwt; a simulated identity provider reachable only through the simulator's
// transport (http.DefaultTransport is the seam): it publishes a key set, can rotate (add a
// key), be down, or be slower than the client's 10 s timeout (on the fake clock). Real
// revocation list (tokens package on SQLite) and real caches.

import (
	"bytes"
	"crypto/ecdsa"
	"crypto/elliptic"
	"crypto/rand"
	"crypto/rsa"
	"crypto/x509"
	"encoding/base64"
	"encoding/json"
	"fmt"
	"io"
	"math/big"
	"net/http"
	"os"
	"path/filepath"
	"strings"
	stdsync "sync"
	"testing"
	"time"

	"github.com/golang-jwt/jwt/v5"

	"github.com/tucats/ego/internal/caches"
	"github.com/tucats/ego/internal/cli/settings"
	"github.com/tucats/ego/internal/defs"
	"github.com/tucats/ego/internal/language/tokens"
	"github.com/tucats/ego/internal/verifsim/sim"
	"github.com/tucats/ego/internal/verifsim/simrun"
	sync "github.com/tucats/ego/internal/verifsim/sync"
)

func TestVerifSim(t *testing.T) { simrun.Main(t, c22Engine{}) }

type c22Engine struct{}

func (c22Engine) Name() string     { return "jwt-hist" }
func (c22Engine) Property() string { return "C22" }

const (
	c22Issuer   = "https://idp.test"
	c22Audience = "ego-api"
	c22Slots    = 4
)

var (
	c22K1, c22K2, c22Unknown *ecdsa.PrivateKey
	c22RSA                   *rsa.PrivateKey
)

func c22Keys() {
	if c22K1 != nil {
		return
	}
	c22K1, _ = ecdsa.GenerateKey(elliptic.P256(), rand.Reader)
	c22K2, _ = ecdsa.GenerateKey(elliptic.P256(), rand.Reader)
	c22Unknown, _ = ecdsa.GenerateKey(elliptic.P256(), rand.Reader)
	c22RSA, _ = rsa.GenerateKey(rand.Reader, 2048)
}

// ---- simulated IdP behind the transport seam

type c22IdP struct {
	mu          stdsync.Mutex
	pub         map[int64]bool // published keys: 0 k1, 1 k2, 3 r1 (k1 and r1 from the start; "rotate" adds k2; "withdraw" removes one)
	down        bool
	slow        bool
	fetches     int
	failed      int
	clock       int64           // counts mints and successful JWKS deliveries (orders them)
	gone        map[int64]int64 // key -> clock value of a JWKS document delivered WITHOUT it since its withdrawal, see settle
	discoveries int             // discovery documents served
	delivered   int             // successful JWKS deliveries
	lastLacking []int64         // keys missing from the latest delivered document
	lastClock   int64           // clock value of that delivery
	everOut     map[int64]bool  // key was withdrawn at some time in this run
}

func b64(b []byte) string { return base64.RawURLEncoding.EncodeToString(b) }

func (p *c22IdP) jwks() []byte {
	ec := func(kid string, k *ecdsa.PrivateKey) jwkKey {
		return jwkKey{Kid: kid, Kty: "EC", Alg: "ES256", Use: "sig", Crv: "P-256", X: b64(k.X.FillBytes(make([]byte, 32))), Y: b64(k.Y.FillBytes(make([]byte, 32)))}
	}
	doc := jwksDocument{}
	if p.pub[0] {
		doc.Keys = append(doc.Keys, ec("k1", c22K1))
	}
	if p.pub[3] {
		doc.Keys = append(doc.Keys, jwkKey{Kid: "r1", Kty: "RSA", Alg: "RS256", Use: "sig", N: b64(c22RSA.N.Bytes()), E: b64(big.NewInt(int64(c22RSA.E)).Bytes())})
	}
	if p.pub[1] {
		doc.Keys = append(doc.Keys, ec("k2", c22K2))
	}
	b, _ := json.Marshal(doc)
	return b
}

func (p *c22IdP) RoundTrip(req *http.Request) (*http.Response, error) {
	sim.Yield("net")
	p.mu.Lock()
	down, slow := p.down, p.slow
	isJWKS := strings.HasSuffix(req.URL.Path, "/jwks")
	if isJWKS {
		p.fetches++
	}
	body := p.jwks()
	var lacking []int64
	for _, k := range []int64{0, 1, 3} {
		if !p.pub[k] {
			lacking = append(lacking, k)
		}
	}
	p.mu.Unlock()
	if down {
		p.mu.Lock()
		p.failed++
		p.mu.Unlock()
		return nil, fmt.Errorf("dial tcp: connection refused (simulated)")
	}
	if slow {
		select {
		case <-time.After(15 * time.Second):
			sim.Yield("net-resume")
		case <-req.Context().Done():
			// (after real blocking a task passes the scheduler before it does anything observable: two clients
			// whose fetches time out at the same fake instant would otherwise continue in an order the Go
			// runtime picks — found by the determinism self-test of a thorough sweep)
			sim.Yield("net-resume")
			p.mu.Lock()
			p.failed++
			p.mu.Unlock()
			return nil, req.Context().Err()
		}
	}
	if strings.HasSuffix(req.URL.Path, "/.well-known/openid-configuration") {
		p.mu.Lock()
		p.discoveries++
		p.mu.Unlock()
		doc := fmt.Sprintf(`{"issuer":%q,"jwks_uri":%q,"token_endpoint":%q,"authorization_endpoint":%q}`, c22Issuer, c22Issuer+"/jwks", c22Issuer+"/token", c22Issuer+"/authorize")
		return &http.Response{StatusCode: 200, Body: io.NopCloser(strings.NewReader(doc)), Header: http.Header{"Content-Type": []string{"application/json"}}, Request: req}, nil
	}
	if !isJWKS {
		return &http.Response{StatusCode: 404, Body: io.NopCloser(bytes.NewReader(nil)), Header: http.Header{}, Request: req}, nil
	}
	p.mu.Lock()
	p.clock++
	p.delivered++
	p.lastLacking, p.lastClock = lacking, p.clock
	p.mu.Unlock()
	return &http.Response{StatusCode: 200, Body: io.NopCloser(bytes.NewReader(body)), Header: http.Header{"Content-Type": []string{"application/json"}}, Request: req}, nil
}

// ---- JWT specifications

// spec fields (each an int64 in the op): key(0 k1,1 k2,2 unknown,3 rsa) alg(0 match,1 HS256 with the public key as secret,2 none,3 another asymmetric algorithm of the key's family, e.g. RS384 - allowed)
// kid(0 right,1 unknown,2 absent) iss(0 right,1 wrong,2 absent) aud(0 right,1 wrong,2 absent) exp(0 +10m,1 +2h,2 past,3 absent) jti(0 present,1 absent)
type c22Spec struct{ key, alg, kid, iss, aud, exp, jti int64 }

type c22Tok struct {
	str    string
	spec   c22Spec
	exp    time.Duration // absolute (since run start); 0 = absent
	jti    string
	exists bool
	minted time.Duration
	clock  int64 // c22IdP.clock at mint time
}

func c22Mint(sp c22Spec, slot int, n int, now time.Duration, start time.Time) c22Tok {
	claims := jwtClaims{}
	claims.Subject = fmt.Sprintf("user%d", slot)
	claims.Scope = "ego.logon"
	switch sp.iss {
	case 0:
		claims.Issuer = c22Issuer
	case 1:
		// every one of these differs from the configured issuer; which one is a function of the
		// slot and mint counter only (no PRNG draw), so near-misses (extensions, truncations,
		// case and trailing-slash variants) are presented as well as an unrelated issuer
		wrong := []string{"https://evil.test", c22Issuer + ".evil.test", c22Issuer + "/tenant-b", c22Issuer[:len(c22Issuer)-1], c22Issuer + "/", "HTTPS://IDP.TEST", "x" + c22Issuer}
		claims.Issuer = wrong[(slot+n)%len(wrong)]
	}
	switch sp.aud {
	case 0:
		claims.Audience = jwt.ClaimStrings{c22Audience}
	case 1:
		claims.Audience = jwt.ClaimStrings{"someone-else"}
	}
	tk := c22Tok{spec: sp, exists: true, minted: now}
	abs := func(d time.Duration) *jwt.NumericDate { return jwt.NewNumericDate(start.Add(now + d)) }
	switch sp.exp {
	case 0:
		claims.ExpiresAt, tk.exp = abs(10*time.Minute), now+10*time.Minute
	case 1:
		claims.ExpiresAt, tk.exp = abs(2*time.Hour), now+2*time.Hour
	case 2:
		claims.ExpiresAt, tk.exp = abs(-time.Minute), now-time.Minute
	}
	if sp.jti == 0 {
		tk.jti = fmt.Sprintf("jti-%d-%d", slot, n)
		claims.ID = tk.jti
	}
	var method jwt.SigningMethod
	var key any
	ecKey := map[int64]*ecdsa.PrivateKey{0: c22K1, 1: c22K2, 2: c22Unknown}[sp.key]
	switch {
	case sp.alg == 2:
		method, key = jwt.SigningMethodNone, jwt.UnsafeAllowNoneSignatureType
	case sp.alg == 1:
		// algorithm confusion: HMAC keyed with the (public) verification key bytes
		var pub any = &c22RSA.PublicKey
		if ecKey != nil {
			pub = &ecKey.PublicKey
		}
		der, _ := x509.MarshalPKIXPublicKey(pub)
		method, key = jwt.SigningMethodHS256, der
	case sp.key == 3:
		method, key = jwt.SigningMethodRS256, c22RSA
		if sp.alg == 3 {
			method = jwt.SigningMethodRS384
		}
	default:
		method, key = jwt.SigningMethodES256, ecKey
	}
	t := jwt.NewWithClaims(method, claims)
	switch sp.kid {
	case 0:
		t.Header["kid"] = map[int64]string{0: "k1", 1: "k2", 2: "k1", 3: "r1"}[sp.key]
	case 1:
		t.Header["kid"] = "no-such-kid"
	}
	s, err := t.SignedString(key)
	if err != nil {
		tk.exists = false
	}
	tk.str = s
	return tk
}

// Ops (A[0] = phase): mint [ph, slot, key, alg, kid, iss, aud, exp, jti] ; present [ph, slot] ; revoke/unrevoke [ph, slot] ;
// purge [ph] ; rotate [ph] ; withdraw [ph, key(0 k1,1 k2,3 r1)] ; idp [ph, state(0 up,1 down,2 slow)] ; advance [ph, seconds]
var c22Advances = []int64{1, 20, 29, 31, 61, 290, 310, 590, 610, 3590, 3610, 7190, 7210}

func (c22Engine) Generate(seed uint64, tier string) *simrun.Case {
	r := sim.NewRand(seed)
	c := &simrun.Case{Prop: "C22", Engine: "jwt-hist", Seed: seed, SchedSeed: sim.Mix(seed, 22), Knobs: map[string]int64{}}
	c.Knobs["ttl"] = []int64{300, 3600}[r.Intn(2)]
	c.Knobs["clients"] = int64(1 + r.Intn(2))
	c.Knobs["discovery"] = int64(r.Intn(2)) // 1: the server is configured through settings and the real oauth.Initialize (OIDC discovery, initial key-set load)
	c.Knobs["preempt_num"], c.Knobs["preempt_den"] = 1, []int64{1, 3, 8}[r.Intn(3)]
	pick := func(good int, n int) int64 { // mostly the good value
		if r.Chance(good, 10) {
			return 0
		}
		return int64(r.Intn(n))
	}
	mint := func(ph int64, slot int64) simrun.Op {
		return simrun.Op{C: 1, K: "mint", A: []int64{ph, slot, pick(5, 4), pick(8, 4), pick(7, 3), pick(8, 3), pick(8, 3), pick(7, 4), pick(8, 2)}}
	}
	c.Ops = append(c.Ops, mint(0, 0), mint(0, 1))
	// slot 0 of every history is a fully valid token, so that the history has something to revoke
	c.Ops[0].A = []int64{0, 0, int64(r.Intn(2)) * 3, 0, 0, 0, 0, int64(r.Intn(2)), 0}
	nph := 3 + r.Intn(7)
	for ph := int64(1); ph <= int64(nph); ph++ {
		n := 1 + r.Intn(3)
		for i := 0; i < n; i++ {
			cl := 1 + r.Intn(int(c.Knobs["clients"]))
			slot := int64(r.Intn(c22Slots))
			if r.Chance(1, 2) {
				slot = 0
			}
			switch x := r.Intn(100); {
			case x < 45:
				c.Ops = append(c.Ops, simrun.Op{C: cl, K: "present", A: []int64{ph, slot}})
			case x < 60:
				c.Ops = append(c.Ops, simrun.Op{C: cl, K: "revoke", A: []int64{ph, slot}})
			case x < 67:
				c.Ops = append(c.Ops, simrun.Op{C: cl, K: "unrevoke", A: []int64{ph, slot}})
			case x < 75:
				c.Ops = append(c.Ops, simrun.Op{C: cl, K: "purge", A: []int64{ph}})
			case x < 78:
				c.Ops = append(c.Ops, simrun.Op{C: cl, K: "rotate", A: []int64{ph}})
			case x < 80:
				c.Ops = append(c.Ops, simrun.Op{C: cl, K: "withdraw", A: []int64{ph, []int64{0, 1, 3}[r.Intn(3)]}})
			case x < 88:
				c.Ops = append(c.Ops, simrun.Op{C: cl, K: "idp", A: []int64{ph, int64(r.Intn(3))}})
			default:
				m := mint(ph, slot)
				m.C = cl
				c.Ops = append(c.Ops, m)
			}
		}
		if r.Chance(1, 2) {
			c.Ops = append(c.Ops, simrun.Op{C: 0, K: "advance", A: []int64{ph, c22Advances[r.Intn(len(c22Advances))]}})
		}
	}
	if r.Chance(1, 4) {
		// revocation-race scenario appended to the random history: the FIRST validation of a fresh token runs
		// concurrently with the revocation of its id; afterwards the token is presented again (twice)
		c.Knobs["clients"] = 2
		ph := int64(nph) + 1
		nph += 4
		c.Ops = append(c.Ops, simrun.Op{C: 1, K: "idp", A: []int64{ph, 0}},
			simrun.Op{C: 1, K: "mint", A: []int64{ph, 1, int64(r.Intn(2)) * 3, 0, 0, 0, 0, 1, 0}},
			simrun.Op{C: 1, K: "present", A: []int64{ph + 1, 1}}, simrun.Op{C: 2, K: "revoke", A: []int64{ph + 1, 1}},
			simrun.Op{C: 1, K: "present", A: []int64{ph + 2, 1}}, simrun.Op{C: 2, K: "present", A: []int64{ph + 3, 1}})
	}
	if r.Chance(1, 4) {
		// key-withdrawal scenario appended to the random history: the IdP stops publishing a key, the key-set
		// cache runs out and is refreshed by a presentation, then a NEW token signed with the withdrawn key is presented
		ph := int64(nph) + 1
		key := []int64{0, 1, 3}[r.Intn(3)]
		if key == 1 {
			c.Ops = append(c.Ops, simrun.Op{C: 1, K: "rotate", A: []int64{ph}}, simrun.Op{C: 1, K: "present", A: []int64{ph + 1, 0}})
			ph += 2
		}
		c.Ops = append(c.Ops, simrun.Op{C: 1, K: "idp", A: []int64{ph, 0}}, simrun.Op{C: 1, K: "withdraw", A: []int64{ph, key}},
			simrun.Op{C: 0, K: "advance", A: []int64{ph, c.Knobs["ttl"] + 10}})
		other := int64(3)
		if key == 3 {
			other = 0
		}
		c.Ops = append(c.Ops, simrun.Op{C: 1, K: "mint", A: []int64{ph + 1, 1, other, 0, 0, 0, 0, 1, 0}},
			simrun.Op{C: 1, K: "present", A: []int64{ph + 2, 1}}, // refreshes the key set
			simrun.Op{C: 1, K: "mint", A: []int64{ph + 3, 2, key, 0, 0, 0, 0, 1, 0}},
			simrun.Op{C: 1, K: "present", A: []int64{ph + 4, 2}})
		if r.Chance(1, 2) {
			c.Ops = append(c.Ops, simrun.Op{C: 0, K: "advance", A: []int64{ph + 4, 31}}, simrun.Op{C: 1, K: "present", A: []int64{ph + 5, 2}})
		}
	}
	return c
}

func (c22Engine) Execute(t *testing.T, c *simrun.Case, keepLog bool) *simrun.Outcome {
	out := &simrun.Outcome{}
	c22Keys()
	var res sim.Result
	var mu stdsync.Mutex
	var bad, hist []string
	var setupErr error
	dir, err := os.MkdirTemp(os.Getenv("TMPDIR"), "c22-")
	if err != nil {
		out.HarnessError = err.Error()
		return out
	}
	defer os.RemoveAll(dir)
	idp := &c22IdP{pub: map[int64]bool{0: true, 3: true}, gone: map[int64]int64{}, everOut: map[int64]bool{}}
	saved := http.DefaultTransport
	defer func() { http.DefaultTransport = saved }()
	p := simrun.Bubble(t, func() {
		caches.VerifSimReset()
		tokens.VerifSimReset()
		jwksCache.mu = sync.RWMutex{}
		missRefresh.mu = sync.Mutex{}
		globalConfigMu = sync.RWMutex{}
		resetJWKSCache()
		resetMissRefresh()
		ttl := time.Duration(c.Knob("ttl", 3600)) * time.Second
		http.DefaultTransport = idp
		idpClient.Transport = nil
		if c.Knob("discovery", 0) == 1 {
			// the real start-up path: configuration from settings, OIDC discovery, initial key-set load
			settings.SetDefault(defs.OAuthProviderSetting, c22Issuer)
			settings.SetDefault(defs.OAuthAudienceSetting, c22Audience)
			settings.SetDefault(defs.OAuthJWKSCacheTTLSetting, fmt.Sprintf("%.0fs", ttl.Seconds()))
			settings.SetDefault(defs.OAuthUserClaimSetting, "sub")
			settings.SetDefault(defs.OAuthPermissionClaimSetting, "scope")
			globalConfigOnce = sync.Once{}
			discoveryCache.mu = sync.RWMutex{}
			resetDiscoveryCache()
			jwksURL = ""
			if err := Initialize(); err != nil {
				setupErr = fmt.Errorf("oauth.Initialize: %v", err)
				return
			}
			if jwksURL != c22Issuer+"/jwks" {
				setupErr = fmt.Errorf("oauth.Initialize: key-set URL is %q after discovery", jwksURL)
				return
			}
			out.Probe("initialized_through_discovery", 1)
		} else {
			globalConfig = rsConfig{Provider: c22Issuer, Audience: c22Audience, UserClaim: "sub", PermissionClaim: "scope", JWKSCacheTTL: ttl, Mode: "jwt"}
			jwksURL = c22Issuer + "/jwks"
			setJWKSCacheTTL(ttl)
			caches.SetExpiration(caches.OAuthJWTCache, fmt.Sprintf("%.0fs", ttl.Seconds()))
		}
		if err := tokens.SetDatabasePath("sqlite3://" + filepath.Join(dir, "blacklist.db")); err != nil {
			setupErr = err
			return
		}
		start := time.Now()
		toks := make([]c22Tok, c22Slots)
		revoked := map[string]bool{}
		unsure := map[string]bool{}
		nmint := 0
		res = sim.Run(c.SchedOptions(keepLog), func() {
			maxPh := int64(0)
			for _, op := range c.Ops {
				if op.Arg(0) > maxPh {
					maxPh = op.Arg(0)
				}
			}
			nclients := int(c.Knob("clients", 1))
			for ph := int64(0); ph <= maxPh; ph++ {
				now := time.Since(start)
				// which jti change state in this phase (then presentations of it in this phase are not judged)
				changing := map[int]bool{}
				kinds := map[int]map[string]bool{}
				idpChanging := false
				for _, op := range c.Ops {
					if op.Arg(0) != ph {
						continue
					}
					s := int(op.Arg(1)) % c22Slots
					switch op.K {
					case "revoke", "unrevoke", "mint":
						changing[s] = true
						if kinds[s] == nil {
							kinds[s] = map[string]bool{}
						}
						kinds[s][op.K] = true
					case "rotate", "idp", "withdraw":
						idpChanging = true
					}
				}
				idp.mu.Lock()
				idpUp := !idp.down && !idp.slow && !idpChanging
				pubBefore := map[int64]bool{}
				goneBefore := map[int64]int64{}
				outBefore := map[int64]bool{}
				for k, v := range idp.pub {
					pubBefore[k] = v
				}
				for k, v := range idp.gone {
					goneBefore[k] = v
				}
				for k, v := range idp.everOut {
					outBefore[k] = v
				}
				fetchesBefore, deliveredBefore := idp.fetches, idp.delivered
				idp.mu.Unlock()
				var wg sync.WaitGroup
				for cl := 1; cl <= nclients; cl++ {
					var mine []int
					for i, op := range c.Ops {
						k := op.C
						if k < 1 || k > nclients {
							k = 1
						}
						if op.Arg(0) == ph && op.K != "advance" && k == cl {
							mine = append(mine, i)
						}
					}
					if len(mine) == 0 {
						continue
					}
					wg.Add(1)
					sim.Go(func() {
						defer wg.Done()
						for _, i := range mine {
							op := c.Ops[i]
							s := int(op.Arg(1)) % c22Slots
							switch op.K {
							case "mint":
								sp := c22Spec{op.Arg(2) % 4, op.Arg(3) % 4, op.Arg(4) % 3, op.Arg(5) % 3, op.Arg(6) % 3, op.Arg(7) % 4, op.Arg(8) % 2}
								mu.Lock()
								nmint++
								n := nmint
								mu.Unlock()
								tk := c22Mint(sp, s, n, time.Since(start), start)
								idp.mu.Lock()
								idp.clock++
								tk.clock = idp.clock
								idp.mu.Unlock()
								mu.Lock()
								toks[s] = tk
								mu.Unlock()
							case "revoke", "unrevoke":
								mu.Lock()
								tk := toks[s]
								mu.Unlock()
								if tk.exists && tk.jti != "" {
									if op.K == "revoke" {
										_ = tokens.Blacklist(tk.jti)
									} else {
										_ = tokens.Delete(tk.jti)
									}
								}
							case "purge":
								caches.Purge(caches.OAuthJWTCache)
							case "rotate":
								idp.mu.Lock()
								idp.pub[1] = true
								delete(idp.gone, 1)
								idp.mu.Unlock()
							case "withdraw":
								k := map[int64]int64{0: 0, 1: 1, 2: 3, 3: 3}[op.Arg(1)%4]
								idp.mu.Lock()
								npub := 0
								for _, v := range idp.pub {
									if v {
										npub++
									}
								}
								// (the IdP never withdraws its LAST key: the server rejects an empty key set as a failed
								// fetch and keeps what it has, which is a defensible reading of "IdP misbehaves")
								if idp.pub[k] && npub > 1 {
									idp.pub[k] = false
									delete(idp.gone, k)
									idp.everOut[k] = true
								}
								idp.mu.Unlock()
							case "idp":
								idp.mu.Lock()
								idp.down, idp.slow = op.Arg(1)%3 == 1, op.Arg(1)%3 == 2
								idp.mu.Unlock()
							case "present":
								mu.Lock()
								tk := toks[s]
								isRevoked, isUnsure := revoked[tk.jti], unsure[tk.jti]
								mu.Unlock()
								if !tk.exists {
									continue
								}
								user, _, err := ValidateJWT(1, tk.str)
								accepted := err == nil
								sp := tk.spec
								// the statement's conditions
								// The signing key counts as NOT published only when that is definite: it was never
								// published, or the IdP withdrew it, has since delivered a key set without it to this
								// server, and the token was minted after that delivery (so no earlier verification of
								// it can be cached) — all before this phase, with no IdP change inside the phase.
								keyOK := pubBefore[sp.key] || idpChanging
								if !keyOK && sp.key != 2 && outBefore[sp.key] {
									g, delivered := goneBefore[sp.key]
									keyOK = !(delivered && tk.jti != "" && tk.clock > g)
									if !keyOK && (sp.alg == 0 || sp.alg == 3) {
										mu.Lock()
										out.Probe("withdrawn_key_presentations_judged", 1)
										mu.Unlock()
									}
								}
								sigOK := (sp.alg == 0 || sp.alg == 3) && sp.key != 2 && keyOK
								claimsOK := sp.iss == 0 && sp.aud == 0
								expOK := tk.exp != 0 && now < tk.exp
								definiteRev := !changing[s] && !isUnsure
								var why string
								switch {
								case !sigOK:
									kd := []string{"k1", "k2 (published only after rotation)", "never published", "the RSA key r1"}[sp.key]
									if sp.key != 2 && outBefore[sp.key] && !pubBefore[sp.key] {
										kd += ", which the IdP has withdrawn; a key set without it was delivered to this server before the token was minted"
									}
									why = "signature/algorithm is not acceptable (key=" + kd + ", alg=" + []string{"matching asymmetric", "HS256 keyed with the public key", "none", "another asymmetric algorithm of the same family"}[sp.alg] + ")"
								case !claimsOK:
									why = fmt.Sprintf("issuer/audience do not match (iss=%d aud=%d; 0 = right)", sp.iss, sp.aud)
								case tk.exp == 0:
									why = "no exp claim"
								case now > tk.exp:
									why = fmt.Sprintf("expired at %v", tk.exp)
								case tk.jti != "" && definiteRev && isRevoked:
									why = "its token id " + tk.jti + " is revoked"
								}
								mu.Lock()
								hist = append(hist, fmt.Sprintf("%d:present:%v", i, accepted))
								if accepted && why != "" && now != tk.exp {
									class := "unverified-jwt-accepted"
									if strings.Contains(why, "revoked") {
										class = "revoked-jwt-accepted"
									}
									bad = append(bad, fmt.Sprintf("%s: op %d at t=%v: JWT in slot %d accepted as %q although %s", class, i, now, s, user, why))
								}
								if accepted && user != fmt.Sprintf("user%d", s) {
									bad = append(bad, fmt.Sprintf("wrong-identity: op %d: JWT of user%d authenticated as %q", i, s, user))
								}
								// bounded liveness, stated narrowly: everything right, kid names a key that was
								// published from the start, IdP reachable and not changing, revocation state definite
								if !accepted && sigOK && sp.key != 1 && !outBefore[sp.key] && !idpChanging && sp.kid == 0 && claimsOK && expOK && now+time.Second < tk.exp && definiteRev && !isRevoked && idpUp {
									bad = append(bad, fmt.Sprintf("valid-jwt-rejected: op %d at t=%v: a JWT meeting every condition was rejected while the IdP is reachable: %v", i, now, err))
								}
								mu.Unlock()
							}
						}
					})
				}
				wg.Wait()
				// A withdrawn key counts as gone from this server's key set only when that is beyond doubt: the
				// phase saw exactly ONE key-set fetch, it was delivered, the IdP did not change during the phase,
				// and the delivered document lacks the key. (With several fetches in flight the server may
				// legitimately install an older document last.)
				idp.mu.Lock()
				if !idpChanging && idp.fetches-fetchesBefore == 1 && idp.delivered-deliveredBefore == 1 {
					for _, k := range idp.lastLacking {
						if _, seen := idp.gone[k]; !seen && !idp.pub[k] {
							idp.gone[k] = idp.lastClock
						}
					}
				}
				idp.mu.Unlock()
				// commit revocation model
				mu.Lock()
				for s, ks := range kinds {
					j := toks[s].jti
					if j == "" {
						continue
					}
					switch {
					case ks["mint"] && len(ks) > 1, ks["revoke"] && ks["unrevoke"]:
						unsure[j] = true
					case ks["revoke"]:
						revoked[j], unsure[j] = true, false
					case ks["unrevoke"]:
						revoked[j], unsure[j] = false, false
					}
				}
				mu.Unlock()
				for _, op := range c.Ops {
					if op.K == "advance" && op.Arg(0) == ph {
						time.Sleep(time.Duration(op.Arg(1)) * time.Second)
					}
				}
			}
			tokens.Close()
			caches.VerifSimShutdown()
			time.Sleep(61 * time.Second)
		})
	})
	if p != nil {
		out.HarnessError = fmt.Sprint(p)
		return out
	}
	if setupErr != nil {
		out.HarnessError = setupErr.Error()
		return out
	}
	out.FromSched(res)
	out.Nontrivial = len(hist) >= 2
	out.Probe("presentations", len(hist))
	out.Probe("jwks_fetches", idp.fetches)
	if idp.failed > 0 {
		out.Fault("idp-unreachable-or-timeout")
		out.Probe("jwks_fetch_failures", idp.failed)
	}
	for _, h := range hist {
		if strings.HasSuffix(h, "true") {
			out.Probe("accepted", 1)
		}
	}
	out.Hash = simrun.HashStrings(res.Hash, hist...)
	if keepLog {
		out.Log = append(out.Log, "presentations: "+strings.Join(hist, " "))
	}
	if out.Violation != "" || out.Inconclusive != "" {
		return out
	}
	for _, b := range bad {
		out.Fail("C22/"+strings.SplitN(b, ":", 2)[0], "%s", b)
	}
	return out
}
