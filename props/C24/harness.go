package router

// C24 — Failed logins lock the account as configured (engine lockout-hist).
// In-package harness mapped into internal/router. DESIGN.md §3 C24.
//
// Real Router.ServeHTTP -> Session.Authenticate -> rate limiter -> auth.ValidatePassword
// against an in-memory user store behind the existing AuthService seam that counts
// credential look-ups (so "refused WITHOUT checking the password" is observable); the real
// pruner goroutine runs on the fake clock. Histories of (user, right/wrong password, time
// advance) for 1-2 client tasks (each with its own users) are compared with a reference
// model of the statement.

import (
	"fmt"
	"net/http"
	"net/http/httptest"
	"sort"
	"strconv"
	"strings"
	stdsync "sync"
	"testing"
	"time"

	"golang.org/x/crypto/bcrypt"

	"github.com/tucats/ego/internal/cli/settings"
	"github.com/tucats/ego/internal/defs"
	"github.com/tucats/ego/internal/server/auth"
	"github.com/tucats/ego/internal/verifsim/sim"
	"github.com/tucats/ego/internal/verifsim/simrun"
	sync "github.com/tucats/ego/internal/verifsim/sync"
)

func TestVerifSim(t *testing.T) { simrun.Main(t, c24Engine{}) }

type c24Engine struct{}

func (c24Engine) Name() string     { return "lockout-hist" }
func (c24Engine) Property() string { return "C24" }

// users 0,1 belong to client 1; users 2,3 to client 2. Index 1 and 3 do not exist in the store.
var c24Users = []string{"alice", "ghost", "bob", "nobody"}
var c24Spellings = []string{"%s", "%S", "%m"} // exact, upper, mixed (router lower-cases user names)
var c24Lockouts = []int64{60, 900, 3600}
var c24Advances = []int64{1, 7, 58, 62, 298, 302, 598, 602, 898, 902, 1790, 1810, 3598, 3602, 7190, 7210, 9000, 86407}

func (c24Engine) Generate(seed uint64, tier string) *simrun.Case {
	r := sim.NewRand(seed)
	c := &simrun.Case{Prop: "C24", Engine: "lockout-hist", Seed: seed, SchedSeed: sim.Mix(seed, 24), Knobs: map[string]int64{}}
	c.Knobs["maxattempts"] = int64(r.Intn(7)) // 0..6 (0 = never lock)
	if r.Chance(1, 4) {
		c.Knobs["maxattempts"] = -1 // setting absent: default of 5
	}
	c.Knobs["lockout"] = c24Lockouts[r.Intn(len(c24Lockouts))]
	if r.Chance(1, 5) {
		c.Knobs["lockout"] = -1 // setting absent: default of 15 minutes
	}
	nclients := 1 + r.Intn(2)
	c.Knobs["clients"] = int64(nclients)
	c.Knobs["preempt_num"], c.Knobs["preempt_den"] = 1, 2
	n := 8 + r.Intn(30)
	for i := 0; i < n; i++ {
		if r.Chance(1, 5) {
			// boundary-biased: around the lockout and around multiples of the prune interval
			c.Ops = append(c.Ops, simrun.Op{C: 0, K: "advance", A: []int64{c24Advances[r.Intn(len(c24Advances))]}})
			continue
		}
		if r.Chance(1, 12) {
			// ... and off the whole-second grid: into the last fraction of a second of a lockout, just past its end
			lk := c.Knobs["lockout"]
			if lk < 0 {
				lk = 900
			}
			c.Ops = append(c.Ops, simrun.Op{C: 0, K: "advms", A: []int64{[]int64{500, 1500, lk*1000 - 500, lk*1000 - 1, lk*1000 + 500, lk*1000 - 1500}[r.Intn(6)]}})
			continue
		}
		cl := 1 + r.Intn(nclients)
		u := (cl-1)*2 + 0
		if r.Chance(1, 5) {
			u = (cl-1)*2 + 1
		}
		right := int64(0)
		if r.Chance(1, 4) {
			right = 1
		}
		c.Ops = append(c.Ops, simrun.Op{C: cl, K: "login", A: []int64{int64(u), right, int64(r.Intn(len(c24Spellings)))}})
	}
	return c
}

// ---- counting user store (existing AuthService seam)

type c24Store struct {
	mu    stdsync.Mutex
	users map[string]defs.User
	reads map[string]int
}

func (a *c24Store) ReadUser(session int, name string, doNotLog bool) (defs.User, error) {
	a.mu.Lock()
	defer a.mu.Unlock()
	a.reads[strings.ToLower(name)]++
	if u, ok := a.users[strings.ToLower(name)]; ok {
		return u, nil
	}
	return defs.User{}, fmt.Errorf("no such user: %s", name)
}
func (a *c24Store) WriteUser(session int, user defs.User) error { return nil }
func (a *c24Store) DeleteUser(session int, name string) error   { return nil }
func (a *c24Store) ListUsers(bool) map[string]defs.User          { return a.users }
func (a *c24Store) Flush() error                                 { return nil }
func (a *c24Store) Close() error                                 { return nil }
func (a *c24Store) readCount(name string) int {
	a.mu.Lock()
	defer a.mu.Unlock()
	return a.reads[name]
}

var c24Hashes = map[string]string{}

type c24Obs struct {
	op       int
	user     string
	right    bool
	exists   bool
	t        time.Duration
	status   int
	retry    int
	verified bool // the credential store was consulted during this request
}

func (c24Engine) Execute(t *testing.T, c *simrun.Case, keepLog bool) *simrun.Outcome {
	out := &simrun.Outcome{}
	var res sim.Result
	var obs []c24Obs
	var mu stdsync.Mutex
	for _, u := range []string{"alice", "bob"} {
		if c24Hashes[u] == "" {
			h, _ := bcrypt.GenerateFromPassword([]byte("pw-"+u), bcrypt.MinCost)
			c24Hashes[u] = string(h)
		}
	}
	p := simrun.Bubble(t, func() {
		// reset process-wide limiter state, configuration and credential store
		// (Race builds: the previous run's pruner goroutine is frozen in its finished bubble; it read the
		// configuration before taking this mutex at each of its ticks. Acquiring the mutex once gives the race
		// detector the happens-before edge from those reads to the configuration writes below — the scheduler's
		// own hand-offs are deliberately hidden from it.)
		if loginAttemptsMu.TryLock() {
			loginAttemptsMu.Unlock()
		}
		loginAttemptsMu = sync.Mutex{}
		loginAttempts = map[string]*loginRecord{}
		scanOnce = sync.Once{}
		if v := c.Knob("maxattempts", -1); v >= 0 {
			settings.SetDefault(defs.AuthMaxAttemptsSetting, strconv.Itoa(int(v)))
		} else {
			settings.DeleteDefault(defs.AuthMaxAttemptsSetting)
		}
		if v := c.Knob("lockout", -1); v >= 0 {
			settings.SetDefault(defs.AuthLockoutDurationSetting, fmt.Sprintf("%ds", v))
		} else {
			settings.DeleteDefault(defs.AuthLockoutDurationSetting)
		}
		store := &c24Store{users: map[string]defs.User{}, reads: map[string]int{}}
		for u, h := range c24Hashes {
			store.users[u] = defs.User{Name: u, Password: h, Permissions: []string{defs.LogonPermission}}
		}
		auth.AuthService = store
		rt := NewRouter("verifsim")
		rt.New("/probe", func(s *Session, w http.ResponseWriter, r *http.Request) int {
			w.WriteHeader(http.StatusOK)
			w.Write([]byte("ok " + s.User))
			return http.StatusOK
		}, http.MethodGet).Authentication(true)
		start := time.Now()
		doLogin := func(i int, op simrun.Op) {
			name := c24Users[int(op.Arg(0))%len(c24Users)]
			spelled := name
			switch c24Spellings[int(op.Arg(2))%len(c24Spellings)] {
			case "%S":
				spelled = strings.ToUpper(name)
			case "%m":
				spelled = strings.ToUpper(name[:1]) + name[1:]
			}
			pw := "wrong-" + name
			if op.Arg(1) == 1 {
				pw = "pw-" + name
			}
			req := httptest.NewRequest(http.MethodGet, "/probe", nil)
			req.SetBasicAuth(spelled, pw)
			before := store.readCount(name)
			w := httptest.NewRecorder()
			rt.ServeHTTP(w, req)
			o := c24Obs{op: i, user: name, right: op.Arg(1) == 1, exists: name == "alice" || name == "bob", t: time.Since(start), status: w.Code}
			o.retry, _ = strconv.Atoi(w.Header().Get("Retry-After"))
			o.verified = store.readCount(name) > before
			mu.Lock()
			obs = append(obs, o)
			mu.Unlock()
		}
		res = sim.Run(c.SchedOptions(keepLog), func() {
			n := int(c.Knob("clients", 1))
			var phase []int
			flush := func() {
				if len(phase) == 0 {
					return
				}
				var wg sync.WaitGroup
				for cl := 1; cl <= n; cl++ {
					var mine []int
					for _, i := range phase {
						k := c.Ops[i].C
						if k < 1 || k > n {
							k = 1
						}
						// a client only ever uses its own users (users are independent by statement)
						if k == cl {
							mine = append(mine, i)
						}
					}
					if len(mine) == 0 {
						continue
					}
					cl := cl
					wg.Add(1)
					sim.Go(func() {
						defer wg.Done()
						for _, i := range mine {
							op := c.Ops[i]
							op.A = append([]int64{}, op.A...)
							op.A[0] = int64((cl-1)*2) + op.Arg(0)%2
							doLogin(i, op)
						}
					})
				}
				wg.Wait()
				phase = nil
			}
			for i, op := range c.Ops {
				if op.K == "advance" {
					flush()
					time.Sleep(time.Duration(op.Arg(0)) * time.Second)
					// (the scheduler takes "the main task was not scheduled for 72 simulated hours" for a deadlock;
					// three day-long advances in a row must not look like one)
					sim.Yield("advance")
					continue
				}
				if op.K == "advms" {
					flush()
					time.Sleep(time.Duration(op.Arg(0)) * time.Millisecond)
					sim.Yield("advance")
					continue
				}
				phase = append(phase, i)
			}
			flush()
		})
	})
	if p != nil {
		out.HarnessError = fmt.Sprint(p)
		return out
	}
	out.FromSched(res)
	out.Nontrivial = len(obs) >= 3
	limit := int(c.Knob("maxattempts", -1))
	if limit < 0 {
		limit = 5
	}
	lock := time.Duration(c.Knob("lockout", -1)) * time.Second
	if lock < 0 {
		lock = 15 * time.Minute
	}
	// per-user histories in request order (a user belongs to one client, so its order is total)
	sort.SliceStable(obs, func(i, j int) bool { return obs[i].op < obs[j].op })
	var hist []string
	for _, o := range obs {
		hist = append(hist, fmt.Sprintf("%s@%v:%v->%d/%v", o.user, o.t, o.right, o.status, o.verified))
	}
	out.Hash = simrun.HashStrings(res.Hash, hist...)
	if keepLog {
		out.Log = append(out.Log, fmt.Sprintf("limit=%d lockout=%v", limit, lock), "history: "+strings.Join(hist, " "))
	}
	if out.Violation != "" || out.Inconclusive != "" {
		return out
	}
	strictBad, lenientBad := "", ""
	for _, u := range c24Users {
		var mine []c24Obs
		for _, o := range obs {
			if o.user == u {
				mine = append(mine, o)
			}
		}
		if s := c24Check(mine, limit, lock, false, out); s != "" && strictBad == "" {
			strictBad = s
		}
		if s := c24Check(mine, limit, lock, true, nil); s != "" && lenientBad == "" {
			lenientBad = s
		}
	}
	switch {
	case lenientBad != "":
		out.Fail("C24/lockout-wrong", "%s", lenientBad)
	case strictBad != "":
		out.Fail("C24/forgotten-after-idle", "consistent with the statement only if the server may forget a user's consecutive failures after a long idle period: %s", strictBad)
	}
	return out
}

// c24Check replays one user's history against the model. State set = possible (count, lockedUntil)
// pairs; the strict model has exactly one; the lenient one may also have forgotten the record
// once it is idle for more than twice the lockout and not locked (what the pruner does).
func c24Check(h []c24Obs, limit int, lock time.Duration, lenient bool, probes *simrun.Outcome) string {
	type st struct {
		count int
		until time.Duration
		last  time.Duration
	}
	states := []st{{}}
	for _, o := range h {
		var next []st
		why := ""
		for _, s := range states {
			cands := []st{s}
			if lenient && s.count > 0 && o.t > s.until && o.t-s.last > 2*lock {
				cands = append(cands, st{})
			}
			for _, s := range cands {
				locked := limit > 0 && o.t < s.until
				boundary := limit > 0 && o.t == s.until && s.until > 0
				// expected behaviours
				for _, asLocked := range []bool{true, false} {
					if asLocked != locked && !boundary {
						continue
					}
					if asLocked {
						if o.status != http.StatusTooManyRequests {
							why = fmt.Sprintf("%s at %v: account is locked until %v but the request was answered %d", o.user, o.t, s.until, o.status)
							continue
						}
						if o.verified {
							why = fmt.Sprintf("%s at %v: locked, yet the credential store was consulted", o.user, o.t)
							continue
						}
						if o.retry < 1 || time.Duration(o.retry)*time.Second > lock+time.Second {
							why = fmt.Sprintf("%s at %v: Retry-After %d outside [1, lockout]", o.user, o.t, o.retry)
							continue
						}
						next = append(next, s) // count unchanged while locked
						continue
					}
					if o.status == http.StatusTooManyRequests {
						why = fmt.Sprintf("%s at %v: refused (429) although not locked (consecutive failures %d, limit %d, locked until %v)", o.user, o.t, s.count, limit, s.until)
						continue
					}
					ok := o.right && o.exists
					if ok != (o.status == http.StatusOK) {
						why = fmt.Sprintf("%s at %v: right=%v exists=%v answered %d", o.user, o.t, o.right, o.exists, o.status)
						continue
					}
					if !o.verified {
						why = fmt.Sprintf("%s at %v: not locked but the password was not checked", o.user, o.t)
						continue
					}
					n := s
					if ok {
						n = st{}
					} else if limit > 0 {
						n.count++
						n.last = o.t
						if n.count >= limit && o.t >= n.until {
							if o.t == n.until && n.until > 0 {
								// a failure at exactly the instant the lockout ends: the statement does not say
								// whether that instant still belongs to the lockout, so a new lockout may or
								// may not start here (the count is kept either way)
								next = append(next, n)
							}
							n.until = o.t + lock
							if probes != nil {
								probes.Probe("lockouts_started", 1)
							}
						}
					}
					next = append(next, n)
				}
			}
		}
		if len(next) == 0 {
			return why
		}
		if probes != nil && o.status == http.StatusTooManyRequests {
			probes.Probe("refused_while_locked", 1)
		}
		// dedupe
		seen := map[st]bool{}
		states = states[:0]
		for _, s := range next {
			if !seen[s] {
				seen[s] = true
				states = append(states, s)
			}
		}
	}
	return ""
}
