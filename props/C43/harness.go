package tables

// C43 — Row endpoints enforce table grants (engine grants-hist).
// In-package harness mapped into internal/server/tables. DESIGN.md §3 C43.
//
// Real router with the real table routes (AddStaticRoutes), real row handlers (read, insert,
// update, delete), table delete/create, grant and revoke endpoints, real dsns service, real
// permission store (resources on SQLite) and real caches on the fake clock. Three users (one
// administrator), two DSNs (one restricted), two tables each. Histories of grant / revoke by
// the administrator interleaved with row and table requests by every user, cache purges and
// time advances are compared with a model: set of (user, dsn, table) -> permissions.

import (
	"bytes"
	stdsql "database/sql"
	"encoding/json"
	"fmt"
	"net/http"
	"net/http/httptest"
	"os"
	"path/filepath"
	"sort"
	"strings"
	"testing"
	"time"

	"golang.org/x/crypto/bcrypt"
	_ "modernc.org/sqlite"

	"github.com/tucats/ego/internal/caches"
	"github.com/tucats/ego/internal/cli/settings"
	"github.com/tucats/ego/internal/defs"
	"github.com/tucats/ego/internal/dsns"
	"github.com/tucats/ego/internal/router"
	"github.com/tucats/ego/internal/server/auth"
	"github.com/tucats/ego/internal/verifsim/sim"
	"github.com/tucats/ego/internal/verifsim/simrun"
)

func TestVerifSim(t *testing.T) { simrun.Main(t, c43Engine{}) }

type c43Engine struct{}

func (c43Engine) Name() string     { return "grants-hist" }
func (c43Engine) Property() string { return "C43" }
func (c43Engine) WarmupRuns() int  { return 2 }

var (
	c43Users  = []string{"admin", "u1", "u2"}
	// restricted, unrestricted, a second restricted one with the same table names, and a restricted one whose NAME
	// extends the unrestricted one's with a dot (DSN names may contain dots; "du.x" + "." + table must not be read as DSN "du")
	c43DSNs = []string{"dr", "du", "dr2", "du.x"}
	c43Tables = []string{"t1", "t2"}
	c43Perms  = []string{"read", "write", "update", "delete", "admin"}
	c43Hash   = map[string]string{}
)

type c43Store struct{ users map[string]defs.User }

func (a *c43Store) ReadUser(session int, name string, doNotLog bool) (defs.User, error) {
	if u, ok := a.users[strings.ToLower(name)]; ok {
		return u, nil
	}
	return defs.User{}, fmt.Errorf("no such user: %s", name)
}
func (a *c43Store) WriteUser(session int, user defs.User) error { return nil }
func (a *c43Store) DeleteUser(session int, name string) error   { return nil }
func (a *c43Store) ListUsers(bool) map[string]defs.User          { return a.users }
func (a *c43Store) Flush() error                                 { return nil }
func (a *c43Store) Close() error                                 { return nil }

// Ops: grant [user(1,2), dsn, table, mask(1..31)] ; revoke [user, dsn, table] ; get/put/patch/del [user(0..2), dsn, table, variant] ;
// tx [user, dsn, table, kind(0 select,1 insert,2 update,3 delete,4 sql update,5 readrows with DELETE..RETURNING)] ;
// droptable [user, dsn, table] ; createtable [dsn, table] (by admin) ; purge ; advance [s]
func (c43Engine) Generate(seed uint64, tier string) *simrun.Case {
	r := sim.NewRand(seed)
	c := &simrun.Case{Prop: "C43", Engine: "grants-hist", Seed: seed, SchedSeed: sim.Mix(seed, 43), Knobs: map[string]int64{}}
	c.Knobs["dsndb"] = int64(r.Intn(2)) // 1: the database-backed DSN service (with its DSN cache), 0: the file service held in memory
	n := 10 + r.Intn(25)
	for i := 0; i < n; i++ {
		if r.Chance(1, 25) {
			// a REST transaction begun on a restricted DSN and then used through the URL of the unrestricted DSN
			c.Ops = append(c.Ops, simrun.Op{K: "txcross", A: []int64{int64(1 + r.Intn(2)), []int64{0, 2, 3}[r.Intn(3)], int64(r.Intn(2)), int64(r.Intn(2))}})
			continue
		}
		if r.Chance(1, 40) {
			// the first DSN-level grant on the unrestricted DSN makes it a restricted one from then on
			c.Ops = append(c.Ops, simrun.Op{K: "restrict"})
			continue
		}
		u := int64(1 + r.Intn(2))
		d := int64(0)
		if r.Chance(1, 4) {
			d = 1
		} else if r.Chance(1, 3) {
			d = 2
		} else if r.Chance(1, 5) {
			d = 3
		}
		t := int64(r.Intn(2))
		switch x := r.Intn(100); {
		case x < 22:
			c.Ops = append(c.Ops, simrun.Op{K: "grant", A: []int64{u, d, t, int64(1 + r.Intn(31))}})
		case x < 30:
			c.Ops = append(c.Ops, simrun.Op{K: "revoke", A: []int64{u, d, t}})
		case x < 84:
			if r.Chance(1, 8) {
				u = 0
			}
			if r.Chance(1, 5) {
				// the same row operations as tasks of a @transaction script (its own per-task authorization)
				c.Ops = append(c.Ops, simrun.Op{K: "tx", A: []int64{u, d, t, int64(r.Intn(6))}})
			} else {
				// variant: 0 plain; 1 abstract row-set form (rowsAbstract.go); 2 (put only) upsert keyed on id
				// 5th argument 1: the request also carries ?user=<the other ordinary user> (a declared query parameter
				// of the rows routes); the caller's own grants must still be what decides
				other := int64(0)
				if r.Chance(1, 4) {
					other = 1
				}
				c.Ops = append(c.Ops, simrun.Op{K: []string{"get", "put", "patch", "del"}[r.Intn(4)], A: []int64{u, d, t, int64(r.Intn(3)), other}})
			}
		case x < 88:
			if r.Chance(1, 2) {
				u = 0 // the administrator drops it (a non-administrator cannot drop on the restricted DSN)
			}
			c.Ops = append(c.Ops, simrun.Op{K: "droptable", A: []int64{u, d, t}})
			if r.Chance(2, 3) {
				// ... and re-creates it: grants recorded for the old table must not carry over
				c.Ops = append(c.Ops, simrun.Op{K: "createtable", A: []int64{0, d, t}})
			}
		case x < 92:
			c.Ops = append(c.Ops, simrun.Op{K: "createtable", A: []int64{0, d, t}})
		case x < 96:
			c.Ops = append(c.Ops, simrun.Op{K: "purge"})
		default:
			c.Ops = append(c.Ops, simrun.Op{K: "advance", A: []int64{[]int64{1, 61, 130, 400}[r.Intn(4)]}})
		}
	}
	return c
}

func c43Dump(path, table string) string {
	db, err := stdsql.Open("sqlite", path)
	if err != nil {
		return "open: " + err.Error()
	}
	defer db.Close()
	rows, err := db.Query("select id, name from " + table + " order by id, name")
	if err != nil {
		return "<" + err.Error() + ">"
	}
	defer rows.Close()
	var out []string
	for rows.Next() {
		var id stdsql.NullInt64
		var name stdsql.NullString
		rows.Scan(&id, &name)
		out = append(out, fmt.Sprintf("(%d,%s)", id.Int64, name.String))
	}
	sort.Strings(out)
	return strings.Join(out, "")
}

func (c43Engine) Execute(t *testing.T, c *simrun.Case, keepLog bool) *simrun.Outcome {
	out := &simrun.Outcome{}
	dir, err := os.MkdirTemp(os.Getenv("TMPDIR"), "c43-")
	if err != nil {
		out.HarnessError = err.Error()
		return out
	}
	defer os.RemoveAll(dir)
	for _, u := range c43Users {
		if c43Hash[u] == "" {
			h, _ := bcrypt.GenerateFromPassword([]byte("pw-"+u), bcrypt.MinCost)
			c43Hash[u] = string(h)
		}
	}
	var res sim.Result
	var hist []string
	var herr string
	p := simrun.Bubble(t, func() {
		caches.VerifSimReset()
		router.VerifSimResetRateLimit()
		pHandle, pValid = nil, false
		settings.SetDefault(defs.LogonUserdataSetting, "sqlite3://"+filepath.Join(dir, "perms.db"))
		store := &c43Store{users: map[string]defs.User{}}
		for _, u := range c43Users {
			perms := []string{defs.LogonPermission}
			if u == "admin" {
				perms = append(perms, defs.RootPermission)
			}
			if u == "u1" {
				perms = append(perms, defs.SQLPermission) // may send SQL text (a user permission, not a table grant); u2 may not
			}
			store.users[u] = defs.User{Name: u, Password: c43Hash[u], Permissions: perms}
		}
		auth.AuthService = store
		svc, err := dsns.NewFileService("memory")
		if c.Knob("dsndb", 0) == 1 {
			svc, err = dsns.NewDatabaseService("sqlite3://" + filepath.Join(dir, "dsns.db"))
		}
		if err != nil {
			herr = err.Error()
			return
		}
		dsns.DSNService = svc
		duRestricted := false
		paths := map[string]string{}
		for i, d := range c43DSNs {
			path := filepath.Join(dir, d+".db")
			paths[d] = path
			db, err := stdsql.Open("sqlite", path)
			if err != nil {
				herr = err.Error()
				return
			}
			for _, tb := range c43Tables {
				db.Exec("create table " + tb + " (id integer, name text)")
				db.Exec("insert into " + tb + " values (1,'one'),(2,'two')")
			}
			db.Close()
			if err := svc.WriteDSN(1, "admin", defs.DSN{Name: d, ID: fmt.Sprintf("00000000-0000-0000-0000-0000000000d%d", i), Provider: "sqlite", Database: path, Restricted: d != "du"}); err != nil {
				herr = "WriteDSN: " + err.Error()
				return
			}
			if d != "du" {
				// DSN-level access to the restricted DSNs is given to everybody: the table grants are
				// what is under test. (Granting anything on a DSN also marks it restricted, so the
				// unrestricted DSN gets no DSN-level grants; it needs none.)
				for _, u := range c43Users[1:] {
					svc.GrantDSN(1, u, d, dsns.DSNReadAction, true)
					svc.GrantDSN(1, u, d, dsns.DSNWriteAction, true)
				}
			}
		}
		rt := router.NewRouter("verifsim")
		AddStaticRoutes(rt)
		as := "" // when set, every request URL gets &user=<as> (reset after each operation)
		do := func(user, method, url, body string) (int, string) {
			if as != "" {
				if strings.Contains(url, "?") {
					url += "&user=" + as
				} else {
					url += "?user=" + as
				}
			}
			req := httptest.NewRequest(method, url, bytes.NewReader([]byte(body)))
			req.SetBasicAuth(user, "pw-"+user)
			req.Header.Set("Accept", "*/*")
			w := httptest.NewRecorder()
			rt.ServeHTTP(w, req)
			return w.Code, w.Body.String()
		}
		// model
		type key struct{ u, d, t string }
		grants := map[key]map[string]bool{}
		exists := map[string]bool{}
		for _, d := range c43DSNs {
			for _, tb := range c43Tables {
				exists[d+"."+tb] = true
			}
		}
		fail := func(class, format string, a ...any) {
			out.Fail("C43/"+class, format+" ; history: %s", append(a, strings.Join(hist, " | "))...)
		}
		res = sim.Run(c.SchedOptions(keepLog), func() {
			nextID := 100
			for i, op := range c.Ops {
				if out.Violation != "" {
					break
				}
				u := c43Users[int(op.Arg(0))%3]
				d := c43DSNs[int(op.Arg(1))%len(c43DSNs)]
				tb := c43Tables[int(op.Arg(2))%2]
				k := key{u, d, tb}
				base := "/dsns/" + d + "/tables/" + tb
				switch op.K {
				case "grant":
					var list []string
					m := grants[k]
					if m == nil {
						m = map[string]bool{}
					}
					for b, pn := range c43Perms {
						if op.Arg(3)&(1<<uint(b)) != 0 {
							list = append(list, "ego.table."+pn)
							m[pn] = true
						} else {
							list = append(list, "-ego.table."+pn)
							m[pn] = false
						}
					}
					body, _ := json.Marshal(list)
					st, resp := do("admin", "PUT", base+"/permissions?user="+u, string(body))
					hist = append(hist, fmt.Sprintf("grant %s %s.%s %v -> %d", u, d, tb, list, st))
					if !exists[d+"."+tb] {
						// granting on a table that does not exist (yet): if the store accepts it, it records it
						if st >= 200 && st <= 299 {
							grants[k] = m
						}
						break
					}
					if st < 200 || st > 299 {
						fail("grant-refused", "op %d: the administrator's grant was answered %d: %.200s", i, st, resp)
						break
					}
					grants[k] = m
					out.Probe("grants", 1)
				case "revoke":
					st, _ := do("admin", "DELETE", base+"/permissions?user="+u, "")
					hist = append(hist, fmt.Sprintf("revoke %s %s.%s -> %d", u, d, tb, st))
					if st >= 200 && st <= 299 {
						delete(grants, k)
						out.Probe("revokes", 1)
					} else if grants[k] != nil && exists[d+"."+tb] {
						fail("revoke-refused", "op %d: the administrator's revoke of an existing grant was answered %d", i, st)
					}
				case "get", "put", "patch", "del", "droptable", "tx":
					need := map[string]string{"get": "read", "put": "write", "patch": "update", "del": "delete", "droptable": "admin"}[op.K]
					before := c43Dump(paths[d], tb)
					variant := op.Arg(3) % 3
					what := op.K
					as = ""
					if op.Arg(4) == 1 && op.K != "tx" && op.K != "droptable" && u != "admin" {
						as = map[string]string{"u1": "u2", "u2": "u1"}[u]
						out.Probe("requests_naming_another_user", 1)
					}
					var st int
					var resp string
					switch op.K {
					case "get":
						if variant == 1 {
							what = "get (abstract)"
							st, resp = do(u, "GET", base+"/rows?abstract=true", "")
						} else {
							st, resp = do(u, "GET", base+"/rows", "")
						}
					case "put":
						nextID++
						switch variant {
						case 1:
							what = "put (abstract)"
							st, resp = do(u, "PUT", base+"/rows?abstract=true", fmt.Sprintf(`{"columns":[{"name":"id","type":"int"},{"name":"name","type":"string"}],"rows":[[%d,"n%d"]],"count":1}`, nextID, nextID))
						case 2:
							// upsert keyed on id, for the id of a row that exists: the request UPDATES that row
							if strings.Contains(before, "(1,") {
								what = "put ?upsert=id of an existing row (an update)"
								need = "update"
								out.Probe("upserts_of_existing_rows", 1)
							} else {
								what = "put ?upsert=id of a new row"
							}
							st, resp = do(u, "PUT", base+"/rows?upsert=id", fmt.Sprintf(`{"id": 1, "name": "upserted%d"}`, nextID))
						default:
							st, resp = do(u, "PUT", base+"/rows", fmt.Sprintf(`{"id": %d, "name": "n%d"}`, nextID, nextID))
						}
					case "patch":
						if variant == 1 {
							what = "patch (abstract)"
							st, resp = do(u, "PATCH", base+"/rows?abstract=true&filter=EQ(id,1)", `{"columns":[{"name":"name","type":"string"}],"rows":[["apatched"]],"count":1}`)
						} else {
							st, resp = do(u, "PATCH", base+"/rows?filter=EQ(id,1)", `{"name": "patched"}`)
						}
					case "del":
						st, resp = do(u, "DELETE", base+"/rows?filter=EQ(id,2)", "")
					case "droptable":
						st, resp = do(u, "DELETE", base, "")
					case "tx":
						nextID++
						kind := op.Arg(3) % 6
						need = []string{"read", "write", "update", "delete", "update", "delete"}[kind]
						what = "@transaction task " + []string{"select", "insert", "update", "delete", "sql UPDATE", "readrows DELETE..RETURNING"}[kind]
						task := []string{
							fmt.Sprintf(`{"operation":"select","table":"%s","filters":["EQ(id,1)"],"columns":["name"]}`, tb),
							fmt.Sprintf(`{"operation":"insert","table":"%s","data":{"id":%d,"name":"tx%d"}}`, tb, nextID, nextID),
							fmt.Sprintf(`{"operation":"update","table":"%s","filters":["EQ(id,1)"],"columns":["name"],"data":{"name":"txpatched"}}`, tb),
							fmt.Sprintf(`{"operation":"delete","table":"%s","filters":["EQ(id,2)"]}`, tb),
							fmt.Sprintf(`{"operation":"sql","sql":"update %s set name = 'sqlpatched' where id = 1"}`, tb),
							fmt.Sprintf(`{"operation":"readrows","sql":"delete from %s where id = 2 returning id"}`, tb),
						}[kind]
						st, resp = do(u, "POST", "/dsns/"+d+"/tables/@transaction", "["+task+"]")
						out.Probe("transaction_script_requests", 1)
					}
					if as != "" {
						what += " with ?user=" + as
					}
					as = ""
					after := c43Dump(paths[d], tb)
					ok2xx := st >= 200 && st <= 299
					hist = append(hist, fmt.Sprintf("%s by %s on %s.%s -> %d", what, u, d, tb, st))
					if !exists[d+"."+tb] {
						break
					}
					g := grants[k]
					restricted := d != "du" || duRestricted
					allowed := u == "admin" || !restricted || (g != nil && (g[need] || g["admin"]))
					switch {
					case !allowed && ok2xx:
						fail("allowed-without-grant", "op %d: %s (needs %s) by %s on restricted %s.%s succeeded with %d although the permission store records %v for that user, DSN and table", i, what, need, u, d, tb, st, g)
					case !allowed && after != before:
						fail("changed-without-grant", "op %d: %s by %s on restricted %s.%s was answered %d but the table changed from %s to %s", i, what, u, d, tb, st, before, after)
					case allowed && u != "admin" && restricted && (st == http.StatusForbidden || st == http.StatusUnauthorized):
						// the statement is "only if": a granted request that is refused for another
						// reason (dropping a table also needs DSN-level administration) is not a violation
						out.Probe("granted_but_refused_for_another_reason", 1)
					case allowed && op.K == "tx" && op.Arg(3)%6 >= 4 && u == "u2" && st == http.StatusForbidden:
						// SQL text in a script needs the user's ego.sql permission, whatever the table grants say
						out.Probe("sql_text_refused_without_sql_permission", 1)
					case allowed && (st == http.StatusForbidden || st == http.StatusUnauthorized):
						fail("unlimited-caller-refused", "op %d: %s (needs %s) by %s on %s.%s was refused with %d although administrators and unrestricted DSNs are not limited (administrator=%v, restricted=%v, grant %v): %.200s", i, op.K, need, u, d, tb, st, u == "admin", restricted, g, resp)
					}
					if !allowed {
						out.Probe("requests_that_must_be_refused", 1)
					} else if u != "admin" && restricted {
						out.Probe("requests_allowed_by_a_grant", 1)
					}
					if op.K == "droptable" && ok2xx {
						exists[d+"."+tb] = false
						// grants for a dropped table are cleaned up: a re-created table starts without any
						for kk := range grants {
							if kk.d == d && kk.t == tb {
								delete(grants, kk)
							}
						}
						out.Probe("tables_dropped", 1)
					}
				case "createtable":
					if exists[d+"."+tb] {
						break
					}
					st, resp := do("admin", "PUT", base, `[{"name":"id","type":"int"},{"name":"name","type":"string"}]`)
					hist = append(hist, fmt.Sprintf("createtable %s.%s -> %d", d, tb, st))
					if st >= 200 && st <= 299 {
						exists[d+"."+tb] = true
						out.Probe("tables_recreated", 1)
					} else {
						fail("create-refused", "op %d: the administrator's table create was answered %d: %.200s", i, st, resp)
					}
				case "txcross":
					// Begin a transaction on restricted DSN d, then send a row request that NAMES the unrestricted DSN in
					// its URL but carries that transaction's id; finally the administrator commits. Whatever happens, the
					// table of the restricted DSN may change only if the user holds the matching grant THERE.
					if duRestricted || !exists[d+"."+tb] || !exists["du."+tb] {
						break
					}
					st, body := do(u, "GET", "/dsns/"+d+"/begin", "")
					var tr struct {
						ID string `json:"id"`
					}
					json.Unmarshal([]byte(body), &tr)
					if st != http.StatusOK || tr.ID == "" {
						hist = append(hist, fmt.Sprintf("begin by %s on %s -> %d", u, d, st))
						break
					}
					before := c43Dump(paths[d], tb)
					need, verb := "delete", "DELETE"
					var st2 int
					if op.Arg(3) == 1 {
						need, verb = "update", "PATCH"
						st2, _ = do(u, verb, "/dsns/du/tables/"+tb+"/rows?transaction="+tr.ID+"&filter=EQ(id,1)", `{"name": "crossed"}`)
					} else {
						st2, _ = do(u, verb, "/dsns/du/tables/"+tb+"/rows?transaction="+tr.ID+"&filter=EQ(id,2)", "")
					}
					st3, _ := do("admin", "GET", "/dsns/"+d+"/commit?transaction="+tr.ID, "")
					if st3 < 200 || st3 > 299 {
						do("admin", "GET", "/dsns/"+d+"/rollback?transaction="+tr.ID, "")
					}
					after := c43Dump(paths[d], tb)
					hist = append(hist, fmt.Sprintf("%s by %s on /dsns/du/tables/%s/rows with the id of a transaction begun on %s -> %d (commit %d)", verb, u, tb, d, st2, st3))
					out.Probe("cross_dsn_transaction_requests", 1)
					g := grants[k]
					if !(g != nil && (g[need] || g["admin"])) && after != before {
						fail("changed-without-grant", "op %d: %s by %s named the unrestricted DSN du in its URL but carried the id of a transaction begun on the restricted DSN %s; table %s.%s changed from %s to %s although the permission store records %v for that user, DSN and table", i, verb, u, d, d, tb, before, after, g)
					}
				case "restrict":
					if !duRestricted {
						// DSN-level access for both ordinary users, through the real service: the first grant marks the DSN restricted
						for _, uu := range c43Users[1:] {
							if err := svc.GrantDSN(1, uu, "du", dsns.DSNReadAction, true); err != nil {
								herr = "GrantDSN: " + err.Error()
							}
							if err := svc.GrantDSN(1, uu, "du", dsns.DSNWriteAction, true); err != nil {
								herr = "GrantDSN: " + err.Error()
							}
						}
						duRestricted = true
						hist = append(hist, "DSN-level grants on du: it is a restricted DSN from now on")
						out.Probe("unrestricted_dsn_became_restricted", 1)
					}
				case "purge":
					for _, cl := range []int{caches.DSNCache, caches.AuthCache, caches.SchemaCache} {
						caches.Purge(cl)
					}
				case "advance":
					time.Sleep(time.Duration(op.Arg(0)) * time.Second)
				}
			}
			if pHandle != nil {
				pHandle.Close()
			}
			caches.VerifSimShutdown()
			time.Sleep(61 * time.Second)
		})
	})
	if p != nil {
		out.HarnessError = fmt.Sprint(p)
		return out
	}
	if herr != "" {
		out.HarnessError = herr
		return out
	}
	out.FromSched(res)
	out.Nontrivial = len(hist) >= 4
	out.Probe("operations", len(hist))
	out.Hash = simrun.HashStrings(0, hist...)
	if keepLog {
		out.Log = append(out.Log, hist...)
	}
	return out
}
