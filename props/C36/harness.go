package main

// C36 — langlint rewrites are crash-safe (engine fs-crash). In-package harness mapped into
// tools/langlint; lint.go's "os" import is replaced by simfs (rule R1c).
//
// Exhaustive: for every configuration (content size x file mode x stale files of an earlier
// crash) a fault-free run records the file-system operations of a rewrite; then the rewrite
// is repeated once per crash point: after each operation (0 = before the first), and for
// every Write additionally after 0, 1, half and n-1 bytes. A crash = the goroutine running
// lintFile stops for ever (no deferred function runs), then the directory is inspected.

import (
	"bytes"
	"fmt"
	stdos "os"
	"path/filepath"
	"sort"
	"strings"
	"syscall"
	"testing"
	"time"

	simfs "github.com/tucats/ego/internal/verifsim/simfs"
	"github.com/tucats/ego/internal/verifsim/simrun"
)

func TestVerifSim(t *testing.T) { simrun.Main(t, c36Engine{}) }

type c36Engine struct{}

func (c36Engine) Name() string     { return "fs-crash" }
func (c36Engine) Property() string { return "C36" }

var c36Sizes = []int{3, 200, 60000}
var c36Modes = []stdos.FileMode{0o644, 0o600, 0o444}

const c36Stales = 4 // none, backup, temp, both

func (c36Engine) Total(tier string) int { return len(c36Sizes) * len(c36Modes) * c36Stales * 2 }

func (e c36Engine) CaseAt(i int, tier string) *simrun.Case {
	c := &simrun.Case{Prop: "C36", Engine: "fs-crash", Seed: uint64(i), Knobs: map[string]int64{}}
	c.Knobs["size"] = int64(i % len(c36Sizes))
	i /= len(c36Sizes)
	c.Knobs["mode"] = int64(i % len(c36Modes))
	i /= len(c36Modes)
	c.Knobs["stale"] = int64(i % c36Stales)
	i /= c36Stales
	c.Knobs["inject_errors"] = int64(i % 2) // second half: error injection instead of crashes (informational)
	c.Knobs["crash_after"] = -2             // -2 = enumerate every crash point
	c.Knobs["cut"] = -1
	return c
}

func (e c36Engine) Generate(seed uint64, tier string) *simrun.Case {
	return e.CaseAt(int(seed%uint64(e.Total(tier))), tier)
}

// unsorted message file of about n entries (langlint sorts keys inside a section)
func c36Content(n int) []byte {
	var b bytes.Buffer
	b.WriteString("# test catalogue\n[msg]\n")
	for i := n; i > 0; i-- {
		fmt.Fprintf(&b, "key.%06d=value number %d with {{sub}} text\n", i, i)
	}
	b.WriteString("[zz]\nb=two\na=one\n")
	return b.Bytes()
}

type c36Env struct {
	dir, path  string
	orig, want []byte
}

func c36Setup(c *simrun.Case) (*c36Env, error) {
	base := stdos.Getenv("TMPDIR")
	dir, err := stdos.MkdirTemp(base, "c36-")
	if err != nil {
		return nil, err
	}
	e := &c36Env{dir: dir, path: filepath.Join(dir, "messages_xx.txt")}
	e.orig = c36Content(c36Sizes[c.Knob("size", 0)])
	want, _, err := Format(e.orig)
	if err != nil {
		return nil, fmt.Errorf("fixture does not format: %v", err)
	}
	if bytes.Equal(want, e.orig) {
		return nil, fmt.Errorf("fixture is already formatted")
	}
	e.want = want
	return e, nil
}

func (e *c36Env) populate(c *simrun.Case) error {
	stdos.RemoveAll(e.dir)
	if err := stdos.MkdirAll(e.dir, 0o755); err != nil {
		return err
	}
	if err := stdos.WriteFile(e.path, e.orig, 0o644); err != nil {
		return err
	}
	if err := stdos.Chmod(e.path, c36Modes[c.Knob("mode", 0)]); err != nil {
		return err
	}
	st := c.Knob("stale", 0)
	if st&1 != 0 { // backup left by an earlier crashed run
		stdos.WriteFile(e.path+".langlint-bak", []byte("[old]\nstale=backup\n"), 0o644)
	}
	if st&2 != 0 { // temp file left by an earlier crashed run
		stdos.WriteFile(e.path+".langlint-123456789", []byte("[old]\nstale=te"), 0o600)
	}
	return nil
}

// runLint executes lintFile on its own goroutine under a plan; returns (crashed, err).
func (e *c36Env) runLint(p simfs.Plan) (crashed bool, err error, ops []simfs.OpRec, failed bool) {
	ch := simfs.Install(p)
	done := make(chan error, 1)
	go func() {
		_, err := lintFile(e.path, false)
		done <- err
	}()
	select {
	case <-ch:
		crashed = true
	case err = <-done:
	case <-time.After(20 * time.Second):
		err = fmt.Errorf("harness: lintFile did not finish")
	}
	ops, _, failed = simfs.Uninstall()
	return
}

func (e *c36Env) listing() []string {
	ents, _ := stdos.ReadDir(e.dir)
	var names []string
	for _, x := range ents {
		names = append(names, x.Name())
	}
	sort.Strings(names)
	return names
}

// check the two halves of the property after a stop at some point.
func (e *c36Env) checkAfterStop(o *simrun.Outcome, what string) {
	data, err := stdos.ReadFile(e.path)
	switch {
	case err != nil:
		o.Fail("C36/target-missing", "%s: the file's path does not exist afterwards (%v); directory: %v", what, err, e.listing())
		return
	case !bytes.Equal(data, e.orig) && !bytes.Equal(data, e.want):
		o.Fail("C36/target-partial", "%s: the file holds neither the complete original (%d bytes) nor the complete formatted content (%d bytes): %d bytes", what, len(e.orig), len(e.want), len(data))
		return
	}
	// a later successful run
	_, err2, _, _ := e.runLint(simfs.Plan{CrashAfter: -1, CutWrite: -1})
	if err2 != nil {
		o.Fail("C36/later-run-fails", "%s: a later fault-free run fails: %v", what, err2)
		return
	}
	data, _ = stdos.ReadFile(e.path)
	if !bytes.Equal(data, e.want) {
		o.Fail("C36/later-run-wrong-content", "%s: after a later successful run the file does not hold the formatted content", what)
		return
	}
	if l := e.listing(); len(l) != 1 {
		o.Fail("C36/leftover-files", "%s: a later successful run leaves temporary or backup files behind: %v", what, l)
	}
}

func (c36Engine) Execute(t *testing.T, c *simrun.Case, keepLog bool) *simrun.Outcome {
	o := &simrun.Outcome{Nontrivial: true}
	e, err := c36Setup(c)
	if err != nil {
		o.HarnessError = err.Error()
		return o
	}
	defer stdos.RemoveAll(e.dir)
	// fault-free reference run: records the operation sequence
	if err := e.populate(c); err != nil {
		o.HarnessError = err.Error()
		return o
	}
	_, err, ops, _ := e.runLint(simfs.Plan{CrashAfter: -1, CutWrite: -1})
	if err != nil {
		o.Fail("C36/fault-free-run-fails", "fault-free rewrite fails: %v", err)
		return o
	}
	var sig []string
	for _, op := range ops {
		sig = append(sig, op.Name)
	}
	o.Hash = simrun.HashStrings(0, fmt.Sprint(c.Knobs["size"], c.Knobs["mode"], c.Knobs["stale"], c.Knobs["inject_errors"]), strings.Join(sig, ","))
	if keepLog {
		for _, op := range ops {
			o.Log = append(o.Log, "op "+op.String())
		}
	}
	e.checkAfterStop(o, "no crash")
	if o.Violation != "" {
		return o
	}
	if c.Knob("inject_errors", 0) == 1 {
		// informational sweep: each operation fails with EIO / ENOSPC / EACCES; same path oracle
		// for the first half (never a partial file); reported as probes only.
		for n := 1; n <= len(ops); n++ {
			for _, errno := range []syscall.Errno{syscall.EIO, syscall.ENOSPC, syscall.EACCES} {
				e.populate(c)
				_, lerr, _, failed := e.runLint(simfs.Plan{CrashAfter: -1, CutWrite: -1, FailOp: n, FailErr: errno})
				if !failed {
					continue
				}
				o.Fault("error:" + errno.Error())
				data, rerr := stdos.ReadFile(e.path)
				ok := rerr == nil && (bytes.Equal(data, e.orig) || bytes.Equal(data, e.want))
				if !ok {
					o.Probe("info/error_injection_left_bad_target", 1)
					if keepLog {
						o.Log = append(o.Log, fmt.Sprintf("informational: op %d failing with %v leaves target bad (lint err=%v)", n, errno, lerr))
					}
				}
			}
		}
		return o
	}
	type point struct{ after, cut int }
	var points []point
	want := c.Knob("crash_after", -2)
	if want >= -1 {
		points = []point{{int(want), int(c.Knob("cut", -1))}}
	} else {
		for n := 0; n <= len(ops); n++ {
			points = append(points, point{n, -1})
			if n > 0 && (ops[n-1].Name == "Write" || ops[n-1].Name == "WriteFile") {
				sz := ops[n-1].Size
				for _, k := range []int{0, 1, sz / 2, sz - 1} {
					if k >= 0 && k < sz {
						points = append(points, point{n, k})
					}
				}
			}
		}
	}
	var worst point
	for _, p := range points {
		if err := e.populate(c); err != nil {
			o.HarnessError = err.Error()
			return o
		}
		crashed, lerr, _, _ := e.runLint(simfs.Plan{CrashAfter: p.after, CutWrite: p.cut})
		what := fmt.Sprintf("crash after operation %d", p.after)
		if p.after > 0 && p.after <= len(ops) {
			what += " (" + ops[p.after-1].Name + ")"
		}
		if p.cut >= 0 {
			what += fmt.Sprintf(" torn after %d bytes", p.cut)
			o.Fault("torn-write")
		} else {
			o.Fault("crash")
		}
		if !crashed {
			if lerr != nil {
				o.Fail("C36/fault-free-run-fails", "%s: run failed without the crash point being reached: %v", what, lerr)
				return o
			}
			o.Probe("crash_point_not_reached", 1)
		}
		po := &simrun.Outcome{}
		e.checkAfterStop(po, what)
		o.Probe("crash_points", 1)
		if po.Violation != "" {
			o.Probe("violating_crash_points", 1)
			// all crash points are explored; the most severe class is the one reported, made
			// specific to its first crash point
			if c36Severity(po.Violation) > c36Severity(o.Violation) {
				o.Violation, o.Detail = po.Violation, po.Detail
				worst = p
			}
		}
	}
	if o.Violation != "" {
		c.Knobs["crash_after"] = int64(worst.after)
		c.Knobs["cut"] = int64(worst.cut)
	}
	return o
}

func c36Severity(class string) int {
	switch class {
	case "":
		return 0
	case "C36/leftover-files":
		return 1
	case "C36/later-run-wrong-content":
		return 2
	case "C36/later-run-fails":
		return 3
	case "C36/target-partial":
		return 4
	case "C36/target-missing":
		return 5
	}
	return 6
}

// WarmupRuns: one configuration is enough (no process-wide lazy state matters here).
func (c36Engine) WarmupRuns() int { return 1 }
