package txharness

// C17 — Transactions are all-or-nothing (engine tx-fault).
// External harness package (virtual dir internal/verifsim/txharness). DESIGN.md §3 C17.
//
// Real scripting.Handler (the @transaction endpoint) with a real router.Session (administrator),
// real dsns/database packages, a real SQLite file per execution, and the fault-injecting
// database/sql shim (rule R1b) under tables/database. For one generated payload: a fault-free
// run fixes the reference outcome (status, final tables, number D of driver calls); then the
// payload is executed once per (driver call <= D) x (fault kind): statement error, BUSY, disk
// full, and COMMIT failing with the inner transaction left open. Oracles after every run:
//   (a) 2xx  => tables equal the fault-free final state; otherwise tables equal the initial state
//   (b) no lock survives: a fresh connection can BEGIN IMMEDIATE with busy_timeout=0, and the
//       shim counts no connection/transaction left open
//   (c) a run in which a fault fired before the commit completed does not report success
//       with a state different from (a)

import (
	"bytes"
	"context"
	stdsql "database/sql"

	_ "modernc.org/sqlite"
	"encoding/json"
	"fmt"
	"io"
	"net/http/httptest"
	"os"
	"path/filepath"
	"sort"
	"strings"
	"testing"

	"github.com/tucats/ego/internal/defs"
	"github.com/tucats/ego/internal/dsns"
	"github.com/tucats/ego/internal/router"
	"github.com/tucats/ego/internal/server/tables/scripting"
	"github.com/tucats/ego/internal/verifsim/sim"
	simsql "github.com/tucats/ego/internal/verifsim/simsql"
	"github.com/tucats/ego/internal/verifsim/simrun"
)

func TestVerifSim(t *testing.T) { simrun.Main(t, c17Engine{}) }

type c17Engine struct{}

func (c17Engine) Name() string     { return "tx-fault" }
func (c17Engine) Property() string { return "C17" }
func (c17Engine) WarmupRuns() int  { return 1 }

var c17Kinds = []string{"error", "busy", "full", "commit-open", "cancel"}

// Ops = tasks of the payload: K = opcode; A = [table(0/1), variant, filterVariant, errorCondition(0 none,1 false,2 true,3 empty,4 malformed,5 fails at evaluation)]
func (c17Engine) Generate(seed uint64, tier string) *simrun.Case {
	r := sim.NewRand(seed)
	c := &simrun.Case{Prop: "C17", Engine: "tx-fault", Seed: seed, Knobs: map[string]int64{"fault_call": -1, "fault_kind": 0}}
	n := 1 + r.Intn(6)
	ops := []string{"insert", "insert", "update", "update", "delete", "select", "readrows", "symbols", "sql", "sql", "drop", "insert-bad", "update-bad",
		"rows-dml", "sql-txctl"}
	for i := 0; i < n; i++ {
		k := ops[r.Intn(len(ops))]
		cond := int64(0)
		if r.Chance(1, 3) {
			cond = int64(1 + r.Intn(5))
		}
		c.Ops = append(c.Ops, simrun.Op{K: k, A: []int64{int64(r.Intn(2)), int64(r.Intn(11)), int64(r.Intn(4)), cond}})
	}
	return c
}

func c17Payload(c *simrun.Case) []defs.TXOperation {
	var tasks []defs.TXOperation
	tables := []string{"items", "stock"}
	for i, op := range c.Ops {
		tb := tables[op.Arg(0)%2]
		v := op.Arg(1)
		filters := [][]string{{"EQ(id,1)"}, {"GT(qty,1)"}, {"EQ(id,999)"}, {}}[op.Arg(2)%4]
		t := defs.TXOperation{Table: tb}
		switch op.K {
		case "insert":
			t.Opcode = "insert"
			t.Data = map[string]any{"id": 100 + i, "name": fmt.Sprintf("new%d", v), "qty": int(v)}
		case "insert-bad":
			t.Opcode = "insert"
			t.Data = map[string]any{"id": 200 + i, "nosuchcolumn": "x"}
		case "update":
			t.Opcode = "update"
			t.Filters = filters
			t.Data = map[string]any{"qty": 50 + int(v)}
			t.Columns = []string{"qty"}
		case "update-bad":
			t.Opcode = "update"
			t.Table = "nosuchtable"
			t.Data = map[string]any{"qty": 1}
		case "delete":
			t.Opcode = "delete"
			t.Filters = filters
			if len(filters) == 0 {
				t.Filters = []string{"GT(id,0)"}
			}
		case "select":
			t.Opcode = "select"
			t.Filters = []string{"EQ(id,1)"}
			t.Columns = []string{"name"}
		case "readrows":
			t.Opcode = "readrows"
			t.Filters = filters
		case "symbols":
			t.Opcode = "symbols"
			t.Table = ""
			t.Data = map[string]any{"sym": fmt.Sprintf("s%d", v)}
		case "sql":
			t.Opcode = "sql"
			t.Table = ""
			t.SQL = c17SQL(i, v)
		case "rows-dml":
			// a row-returning statement that also changes data (doRows: "SELECT (or other row-returning) query")
			t.Opcode = "readrows"
			t.Table = ""
			t.SQL = c17RowsDML(i, v)
		case "sql-txctl":
			// transaction-control text inside the script
			t.Opcode = "sql"
			t.Table = ""
			t.SQL = c17TxCtl[int(v)%len(c17TxCtl)]
		case "drop":
			t.Opcode = "drop"
		}
		switch op.Arg(3) {
		case 1:
			t.Errors = []defs.TXError{{Condition: "_rows_ > 1000", Status: 409, Message: "never"}}
		case 2:
			t.Errors = []defs.TXError{{Condition: "_rows_ >= 0", Status: 409, Message: "always"}}
		case 3:
			t.Errors = []defs.TXError{{Condition: "  ", Status: 409}}
		case 4:
			t.Errors = []defs.TXError{{Condition: "_rows_ > ", Status: 409}}
		case 5:
			t.Errors = []defs.TXError{{Condition: "no_such_symbol_anywhere > 1", Status: 409}}
		}
		tasks = append(tasks, t)
	}
	return tasks
}

var c17TxCtl = []string{"COMMIT", "ROLLBACK", "BEGIN", "SAVEPOINT s1", "END", "update items set qty = 77 where id = 3; COMMIT", "commit transaction", "ROLLBACK TO s1",
	"-- note\nCOMMIT", "/* note */ COMMIT", "update items set qty = 78 where id = 3; /* x */ end"}

func c17SQL(i int, v int64) string {
	switch v % 4 {
	case 1:
		return fmt.Sprintf("insert into stock (id, name, qty) values (%d, 'sql%d', %d)", 300+i, i, v)
	case 2:
		return "delete from stock where id = 2"
	case 3:
		return "select id, name from items where id > 1"
	}
	return fmt.Sprintf("update items set qty = qty + %d where id = 2", v+1)
}

func c17RowsDML(i int, v int64) string {
	switch v % 3 {
	case 1:
		return "delete from items where id = 3 returning id"
	case 2:
		return fmt.Sprintf("insert into stock (id, name, qty) values (%d, 'ret%d', 7) returning id", 400+i, i)
	}
	return "update stock set qty = qty + 1 where id = 1 returning id, qty"
}

// c17Model is an independent reference for "every operation applied": the tables after applying the
// payload's operations one after the other to the seeded tables, in the format of c17Dump. ok is false
// when the payload contains an operation that cannot be applied at all (or whose complete application
// is not defined), in which case only the differential oracle is used.
func c17Model(c *simrun.Case) (state string, ok bool) {
	type row struct {
		id   int64
		name string
		qty  int64
	}
	tabs := map[string][]row{
		"items": {{1, "one", 1}, {2, "two", 2}, {3, "three", 3}},
		"stock": {{1, "s-one", 10}, {2, "s-two", 20}},
	}
	dropped := map[string]bool{}
	names := []string{"items", "stock"}
	match := func(fv int64, r row) bool {
		switch fv % 4 {
		case 0:
			return r.id == 1
		case 1:
			return r.qty > 1
		case 2:
			return r.id == 999
		}
		return true
	}
	upd := func(tb string, pred func(row) bool, f func(*row)) {
		for i := range tabs[tb] {
			if pred(tabs[tb][i]) {
				f(&tabs[tb][i])
			}
		}
	}
	del := func(tb string, pred func(row) bool) {
		var keep []row
		for _, r := range tabs[tb] {
			if !pred(r) {
				keep = append(keep, r)
			}
		}
		tabs[tb] = keep
	}
	for i, op := range c.Ops {
		tb := names[op.Arg(0)%2]
		v, fv := op.Arg(1), op.Arg(2)
		uses := tb
		switch op.K {
		case "sql":
			uses = []string{"items", "stock", "stock", "items"}[v%4]
		case "rows-dml":
			uses = []string{"stock", "items", "stock"}[v%3]
		case "symbols", "sql-txctl":
			uses = ""
		}
		if uses != "" && dropped[uses] {
			return "", false
		}
		switch op.K {
		case "insert":
			tabs[tb] = append(tabs[tb], row{int64(100 + i), fmt.Sprintf("new%d", v), v})
		case "update":
			upd(tb, func(r row) bool { return match(fv, r) }, func(r *row) { r.qty = 50 + v })
		case "delete":
			del(tb, func(r row) bool { return match(fv, r) })
		case "sql":
			switch v % 4 {
			case 0:
				upd("items", func(r row) bool { return r.id == 2 }, func(r *row) { r.qty += v + 1 })
			case 1:
				tabs["stock"] = append(tabs["stock"], row{int64(300 + i), fmt.Sprintf("sql%d", i), v})
			case 2:
				del("stock", func(r row) bool { return r.id == 2 })
			}
		case "rows-dml":
			switch v % 3 {
			case 0:
				upd("stock", func(r row) bool { return r.id == 1 }, func(r *row) { r.qty++ })
			case 1:
				del("items", func(r row) bool { return r.id == 3 })
			case 2:
				tabs["stock"] = append(tabs["stock"], row{int64(400 + i), fmt.Sprintf("ret%d", i), 7})
			}
		case "drop":
			dropped[tb] = true
		case "insert-bad", "update-bad":
			return "", false
		case "sql-txctl":
			if c17TxCtl[int(v)%len(c17TxCtl)] != "SAVEPOINT s1" {
				return "", false // a script that ends its own transaction has no defined complete application
			}
		}
	}
	var out []string
	for _, tb := range names {
		if dropped[tb] {
			out = append(out, tb+": <dropped>")
			continue
		}
		var lines []string
		for _, r := range tabs[tb] {
			lines = append(lines, fmt.Sprintf("(%v,%v,%v)", r.id, r.name, r.qty))
		}
		sort.Strings(lines)
		out = append(out, tb+": "+strings.Join(lines, ""))
	}
	return strings.Join(out, " ; "), true
}

func c17Seed(path string) error {
	db, err := stdsql.Open("sqlite", path)
	if err != nil {
		return err
	}
	defer db.Close()
	for _, q := range []string{
		"create table items (id integer, name text, qty integer)",
		"create table stock (id integer, name text, qty integer)",
		"insert into items values (1,'one',1),(2,'two',2),(3,'three',3)",
		"insert into stock values (1,'s-one',10),(2,'s-two',20)",
	} {
		if _, err := db.Exec(q); err != nil {
			return err
		}
	}
	return nil
}

func c17Dump(path string) (string, string) {
	db, err := stdsql.Open("sqlite", path)
	if err != nil {
		return "open: " + err.Error(), ""
	}
	defer db.Close()
	db.Exec("PRAGMA busy_timeout=0;")
	// (b) no lock survives
	lock := ""
	if _, err := db.Exec("BEGIN IMMEDIATE"); err != nil {
		lock = err.Error()
	} else {
		db.Exec("ROLLBACK")
	}
	var out []string
	for _, tb := range []string{"items", "stock"} {
		rows, err := db.Query("select id, name, qty from " + tb + " order by id, name, qty")
		if err != nil {
			if strings.Contains(err.Error(), "no such table") {
				out = append(out, tb+": <dropped>")
			} else {
				out = append(out, tb+": <"+err.Error()+">")
			}
			continue
		}
		var lines []string
		for rows.Next() {
			var id, qty stdsql.NullInt64
			var name stdsql.NullString
			rows.Scan(&id, &name, &qty)
			lines = append(lines, fmt.Sprintf("(%v,%v,%v)", id.Int64, name.String, qty.Int64))
		}
		rows.Close()
		sort.Strings(lines)
		out = append(out, tb+": "+strings.Join(lines, ""))
	}
	return strings.Join(out, " ; "), lock
}

type c17Run struct {
	status     int
	body       string
	state      string
	lock       string
	trace      []string
	fired      string
	conns, txs int
}

var c17Counter int

func c17Execute(dir string, payload []byte, plan simsql.Plan) (c17Run, error) {
	c17Counter++
	path := filepath.Join(dir, fmt.Sprintf("run%d.db", c17Counter))
	if err := c17Seed(path); err != nil {
		return c17Run{}, err
	}
	svc, err := dsns.NewFileService("memory")
	if err != nil {
		return c17Run{}, err
	}
	dsns.DSNService = svc
	if err := svc.WriteDSN(1, "admin", defs.DSN{Name: "d1", ID: "00000000-0000-0000-0000-00000000d001", Provider: "sqlite", Database: path}); err != nil {
		return c17Run{}, err
	}
	session := &router.Session{ID: 1, User: "admin", Admin: true, Authenticated: true, URLParts: map[string]any{"dsn": "d1"}, Permissions: []string{defs.RootPermission}}
	req := httptest.NewRequest("POST", "/dsns/d1/tables/@transaction", bytes.NewReader(payload))
	// fault kind "cancel": the client disconnects at the chosen driver call (the request context is cancelled)
	ctx, cancel := context.WithCancel(req.Context())
	defer cancel()
	req = req.WithContext(ctx)
	simsql.OnCancel = cancel
	w := httptest.NewRecorder()
	simsql.Install(plan)
	status := scripting.Handler(session, w, req)
	trace, fired, conns, txs := simsql.Uninstall()
	simsql.OnCancel = nil
	body, _ := io.ReadAll(w.Body)
	state, lock := c17Dump(path)
	if w.Code != 0 && w.Code != status && status == 0 {
		status = w.Code
	}
	r := c17Run{status: status, body: string(body), state: state, lock: lock, trace: trace, fired: fired, conns: conns, txs: txs}
	if lock == "" {
		os.Remove(path)
		os.Remove(path + "-wal")
		os.Remove(path + "-shm")
	}
	return r, nil
}

func (c17Engine) Execute(t *testing.T, c *simrun.Case, keepLog bool) *simrun.Outcome {
	out := &simrun.Outcome{}
	dir, err := os.MkdirTemp(os.Getenv("TMPDIR"), "c17-")
	if err != nil {
		out.HarnessError = err.Error()
		return out
	}
	defer os.RemoveAll(dir)
	tasks := c17Payload(c)
	payload, _ := json.Marshal(tasks)
	// initial state
	init, err := c17Execute(dir, []byte("[]"), simsql.Plan{})
	if err != nil {
		out.HarnessError = "setup: " + err.Error()
		return out
	}
	P := init.state
	ref, err := c17Execute(dir, payload, simsql.Plan{})
	if err != nil {
		out.HarnessError = "reference: " + err.Error()
		return out
	}
	E := ref.state
	D := len(ref.trace)
	out.Hash = simrun.HashStrings(0, string(payload))
	out.Nontrivial = true
	out.Probe("payloads", 1)
	out.Probe("driver_calls_in_reference_run", D)
	if ref.status >= 200 && ref.status < 300 {
		out.Probe("reference_success", 1)
	} else {
		out.Probe("reference_refused", 1)
	}
	model, modelOK := c17Model(c)
	if modelOK {
		out.Probe("payloads_with_independent_model", 1)
	}
	check := func(what string, r c17Run) {
		ok2xx := r.status >= 200 && r.status < 300
		if ok2xx && modelOK && r.state != model {
			out.Fail("C17/success-but-not-all-applied", "%s: status %d, driver calls %v, fault %q ; payload %s ; tables are %s, applying every operation of the payload to the initial tables gives %s", what, r.status, r.trace, r.fired, payload, r.state, model)
			return
		}
		want := P
		if ok2xx {
			want = E
		}
		detail := fmt.Sprintf("%s: status %d, driver calls %v, fault %q ; payload %s", what, r.status, r.trace, r.fired, payload)
		switch {
		case r.state != want && ok2xx:
			out.Fail("C17/success-but-not-all-applied", "%s ; tables are %s, a complete application gives %s", detail, r.state, E)
		case r.state != want:
			out.Fail("C17/failure-but-partly-applied", "%s ; tables are %s, they were %s before the request", detail, r.state, P)
		case r.lock != "":
			out.Fail("C17/lock-held-after-return", "%s ; after the handler returned a fresh connection cannot BEGIN IMMEDIATE: %s (connections still open %d, transactions still open %d)", detail, r.lock, r.conns, r.txs)
		case r.txs > 0:
			out.Fail("C17/transaction-left-open", "%s ; %d database transaction(s) still open after the handler returned", detail, r.txs)
		}
	}
	if keepLog {
		out.Log = append(out.Log, "payload: "+string(payload), fmt.Sprintf("initial: %s", P), fmt.Sprintf("reference: status %d state %s calls %v body %.200s", ref.status, E, ref.trace, ref.body))
	}
	check("fault-free run", ref)
	if out.Violation != "" {
		return out
	}
	// enumerate fault placements (or replay one)
	type fp struct {
		call int
		kind string
	}
	var points []fp
	if fc := int(c.Knob("fault_call", -1)); fc > 0 {
		points = []fp{{fc, c17Kinds[int(c.Knob("fault_kind", 0))%len(c17Kinds)]}}
	} else if fc < 0 {
		for n := 1; n <= D; n++ {
			for _, k := range c17Kinds {
				if k == "commit-open" && ref.trace[n-1] != "commit" {
					continue
				}
				points = append(points, fp{n, k})
			}
		}
	}
	for _, p := range points {
		r, err := c17Execute(dir, payload, simsql.Plan{FailCall: p.call, Kind: p.kind})
		if err != nil {
			out.HarnessError = err.Error()
			return out
		}
		if r.fired != "" {
			out.Fault(r.fired)
		}
		out.Probe("fault_placements", 1)
		if keepLog {
			out.Log = append(out.Log, fmt.Sprintf("fault %s at call %d: status %d state %s lock=%q open conns=%d txs=%d", p.kind, p.call, r.status, r.state, r.lock, r.conns, r.txs))
		}
		at := "beyond the reference run's calls"
		if p.call-1 < len(ref.trace) {
			at = ref.trace[p.call-1]
		}
		check(fmt.Sprintf("fault %s injected at driver call %d (%s)", p.kind, p.call, at), r)
		if out.Violation != "" {
			c.Knobs["fault_call"] = int64(p.call)
			for i, k := range c17Kinds {
				if k == p.kind {
					c.Knobs["fault_kind"] = int64(i)
				}
			}
			return out
		}
	}
	return out
}
