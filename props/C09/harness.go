package vmharness

// C09 — Finished executions leave nothing running (engine vm-leak). DESIGN.md §3 C09.
//
// One simulated run executes one generated Ego program K times (K = 1..3) with the real
// compiler and VM, every exit path being a generated dimension: normal return, runtime
// error, unrecovered panic, recovered panic, error inside a sort.Slice comparator or a
// String() method (callbacks from runtime functions into Ego), error in a spawned
// goroutine, sleeping goroutines that outlive main, workers left blocked on a channel.
// Then the simulated clock is advanced by ten minutes with the scheduler running whatever
// can run: that is an exact quiescence point. Every goroutine the repo code started is a
// scheduler task with a recorded creation site, so "what is still alive" is exact:
// allowed are only the Ego goroutines the program itself left blocked (count known by
// construction); anything else (the per-execution signal watcher, timers, callbacks) is a leak.

import (
	"fmt"
	"strings"
	"testing"
	"time"

	"github.com/tucats/ego/internal/verifsim/sim"
	"github.com/tucats/ego/internal/verifsim/simrun"
)

func TestVerifSim(t *testing.T) { simrun.Main(t, c09Engine{}) }

type c09Engine struct{}

func (c09Engine) Name() string     { return "vm-leak" }
func (c09Engine) Property() string { return "C09" }

var c09Families = []string{"normal", "rterr", "panic", "recovered", "sortcmp", "sorterr", "stringer", "stringerr", "goerr", "sleepers", "blocked", "nested",
	"gopanic", "gopanic-callback", "failpanic"}

func (c09Engine) Generate(seed uint64, tier string) *simrun.Case {
	r := sim.NewRand(seed)
	c := &simrun.Case{Prop: "C09", Engine: "vm-leak", Seed: seed, SchedSeed: sim.Mix(seed, 9), Knobs: map[string]int64{}}
	c.Knobs["family"] = int64(r.Intn(len(c09Families)))
	c.Knobs["execs"] = int64(1 + r.Intn(3))
	c.Knobs["n"] = int64(2 + r.Intn(6))     // elements / iterations
	c.Knobs["at"] = int64(r.Intn(6))        // where the failure happens
	c.Knobs["workers"] = int64(1 + r.Intn(3))
	c.Knobs["depth"] = int64(1 + r.Intn(3))
	c.Knobs["max_free"] = []int64{0, 5, 40}[r.Intn(3)]
	c.Knobs["preempt_num"] = 1
	c.Knobs["preempt_den"] = []int64{1, 3}[r.Intn(2)]
	c.Knobs["optimize"] = int64(r.Intn(2))
	return c
}

// c09Program returns the source, whether a run-time error is expected, and how many Ego
// goroutines each execution leaves blocked by construction.
func c09Program(c *simrun.Case) (src string, wantErr bool, blocked int) {
	n, at, w, depth := int(c.Knob("n", 3)), int(c.Knob("at", 0)), int(c.Knob("workers", 1)), int(c.Knob("depth", 1))
	if at >= n {
		at = n - 1
	}
	head := "package main\nimport \"fmt\"\nimport \"sync\"\nimport \"sort\"\nimport \"time\"\n\n"
	use := "\t_ = sort.Ints\n\t_ = time.Now\n\tvar unusedwg sync.WaitGroup\n\t_ = unusedwg\n"
	switch c09Families[int(c.Knob("family", 0))%len(c09Families)] {
	case "normal":
		return head + fmt.Sprintf(`func main() {
%s	var wg sync.WaitGroup
	ch := make(chan, %d)
	for i := 0; i < %d; i = i + 1 {
		wg.Add(1)
		go func(id int) {
			ch <- id
			wg.Done()
		}(i)
	}
	wg.Wait()
	s := 0
	for i := 0; i < %d; i = i + 1 {
		s = s + <-ch
	}
	fmt.Println("sum", s)
}
`, use, w, w, w), false, 0
	case "rterr":
		return head + fmt.Sprintf(`func main() {
%s	a := []int{1, 2, 3}
	for i := 0; i < %d; i = i + 1 {
		if i == %d {
			fmt.Println(a[i+10])
		}
	}
}
`, use, n, at), true, 0
	case "panic":
		var b strings.Builder
		b.WriteString(head)
		for d := depth; d >= 1; d-- {
			if d == depth {
				fmt.Fprintf(&b, "func f%d(x int) int {\n\tpanic(\"boom\")\n\treturn x\n}\n\n", d)
			} else {
				fmt.Fprintf(&b, "func f%d(x int) int {\n\treturn f%d(x + 1)\n}\n\n", d, d+1)
			}
		}
		fmt.Fprintf(&b, "func main() {\n%s\tfmt.Println(f1(1))\n}\n", use)
		return b.String(), true, 0
	case "recovered":
		return head + fmt.Sprintf(`func risky(i int) int {
	a := []int{1, 2, 3}
	return a[i]
}

func main() {
%s	total := 0
	for i := 0; i < %d; i = i + 1 {
		try {
			total = total + risky(i)
		} catch (e) {
			total = total + 100
		}
	}
	fmt.Println(total)
}
`, use, n), false, 0
	case "sortcmp", "sorterr":
		bad := ""
		wantErr = false
		if c09Families[int(c.Knob("family", 0))%len(c09Families)] == "sorterr" {
			bad = fmt.Sprintf("\t\tcalls = calls + 1\n\t\tif calls > %d {\n\t\t\treturn arr[i+1000] < arr[j]\n\t\t}\n", at)
			wantErr = true
		}
		return head + fmt.Sprintf(`func main() {
%s	arr := []int{}
	for i := 0; i < %d; i = i + 1 {
		arr = append(arr, (i*7)%%5)
	}
	calls := 0
	sort.Slice(arr, func(i int, j int) bool {
%s		return arr[i] < arr[j]
	})
	fmt.Println(arr, calls)
}
`, use, n+2, bad), wantErr, 0
	case "stringer", "stringerr":
		body := "\treturn fmt.Sprintf(\"T(%d)\", t.v)\n"
		wantErr = false
		if c09Families[int(c.Knob("family", 0))%len(c09Families)] == "stringerr" {
			body = "\ta := []int{1}\n\treturn fmt.Sprintf(\"T(%d)\", a[t.v+5])\n"
			wantErr = true
		}
		return head + fmt.Sprintf(`type T struct {
	v int
}

func (t T) String() string {
%s}

func main() {
%s	for i := 0; i < %d; i = i + 1 {
		x := T{v: i}
		fmt.Println(x)
	}
}
`, body, use, n), wantErr, 0
	case "goerr":
		return head + fmt.Sprintf(`func main() {
%s	ch := make(chan, %d)
	for i := 0; i < %d; i = i + 1 {
		go func(id int) {
			ch <- id
			a := []int{1}
			fmt.Println(a[id+5])
		}(i)
	}
	s := 0
	for i := 0; i < %d; i = i + 1 {
		s = s + <-ch
	}
	fmt.Println(s)
}
`, use, w, w, w), false, 0
	case "sleepers":
		return head + fmt.Sprintf(`func main() {
%s	for i := 0; i < %d; i = i + 1 {
		go func(id int) {
			d, _ := time.ParseDuration("%ds")
			time.Sleep(d)
		}(i)
	}
	fmt.Println("main done")
}
`, use, w, 5+at*20), false, 0
	case "blocked":
		return head + fmt.Sprintf(`func main() {
%s	ch := make(chan, 1)
	for i := 0; i < %d; i = i + 1 {
		go func(id int) {
			x := <-ch
			fmt.Println(x)
		}(i)
	}
	fmt.Println("main leaves workers blocked")
}
`, use, w), false, w
	case "gopanic":
		// a native runtime function runs into a Go run-time panic (injected at the runtime-function seam)
		return head + fmt.Sprintf(`func main() {
%s	total := 0
	for i := 0; i < %d; i = i + 1 {
		if i == %d {
			total = total + vsboom()
		}
		total = total + i
	}
	fmt.Println(total)
}
`, use, n, at), true, 0
	case "gopanic-callback":
		// ... inside a callback invoked by a runtime function (comparator run on a reused context)
		return head + fmt.Sprintf(`func main() {
%s	arr := []int{5, 3, 4, 1, 2, 9, 7}
	calls := 0
	sort.Slice(arr, func(i int, j int) bool {
		calls = calls + 1
		if calls > %d {
			return vsboom() < arr[j]
		}
		return arr[i] < arr[j]
	})
	fmt.Println(arr)
}
`, use, at), true, 0
	case "failpanic":
		// @fail with ego.runtime.panics=true: the directive re-panics at the Go level
		return head + fmt.Sprintf(`func main() {
%s	for i := 0; i < %d; i = i + 1 {
		if i == %d {
			@fail "deliberate failure"
		}
	}
	fmt.Println("not reached")
}
`, use, n, at), true, 0
	default: // nested: comparator that itself formats a Stringer, inside try/catch, error at the end
		return head + fmt.Sprintf(`type T struct {
	v int
}

func (t T) String() string {
	return fmt.Sprintf("T(%%d)", t.v)
}

func main() {
%s	arr := []int{3, 1, 2, 5, 4}
	try {
		sort.Slice(arr, func(i int, j int) bool {
			s := fmt.Sprintf("%%v", T{v: arr[i]})
			if len(s) > 100 {
				return false
			}
			return arr[i] < arr[j]
		})
	} catch (e) {
		fmt.Println("caught")
	}
	a := []int{1}
	fmt.Println(a[%d])
}
`, use, 3+at), true, 0
	}
}

func (c09Engine) Execute(t *testing.T, c *simrun.Case, keepLog bool) *simrun.Outcome {
	out := &simrun.Outcome{}
	src, wantErr, blockedPer := c09Program(c)
	execs := int(c.Knob("execs", 1))
	var res sim.Result
	var cerr error
	var rerrs []error
	var outputs []string
	var pan any
	gopanics := 0
	fam := c09Families[int(c.Knob("family", 0))%len(c09Families)]
	opt := c.SchedOptions(keepLog)
	opt.MaxSteps = 400000
	p := simrun.Bubble(t, func() {
		res = sim.Run(opt, func() {
			defer func() { pan = recover() }()
			for i := 0; i < execs; i++ {
				var o string
				var ce, re error
				func() {
					// the embedding server recovers a Go panic of one execution and carries on
					defer func() {
						if r := recover(); r != nil {
							gopanics++
							re = fmt.Errorf("go panic: %v", r)
						}
					}()
					o, ce, re = RunProgram("c09", src, VMOptions{Optimize: c.Knob("optimize", 0) == 1, Faulty: true, RuntimePanics: fam == "failpanic"})
				}()
				if ce != nil {
					cerr = ce
					return
				}
				outputs = append(outputs, o)
				rerrs = append(rerrs, re)
			}
			// exact quiescence: everything that can run runs while main sleeps on the fake clock
			time.Sleep(10 * time.Minute)
		})
	})
	if p != nil {
		out.HarnessError = fmt.Sprint(p)
		return out
	}
	out.FromSched(res)
	out.Nontrivial = true
	out.Probe("family/"+fam, 1)
	out.Probe("go_panics_recovered_by_the_host", gopanics)
	out.Probe("executions", execs)
	out.Hash = simrun.HashStrings(res.Hash, fam, fmt.Sprint(c.Knobs))
	if keepLog {
		out.Log = append(out.Log, "program:\n"+src, fmt.Sprintf("outputs=%q runErrs=%v compileErr=%v", outputs, rerrs, cerr), fmt.Sprintf("leftover=%v", res.LeftoverTasks))
	}
	if out.Violation != "" || out.Inconclusive != "" {
		return out
	}
	if pan != nil {
		out.Fail("C09/host-panic", "the interpreter panicked: %v", pan)
		return out
	}
	if cerr != nil {
		out.HarnessError = "generated program does not compile: " + cerr.Error() + "\n" + src
		return out
	}
	for i, re := range rerrs {
		if fam == "sorterr" || fam == "stringerr" || fam == "nested" || fam == "goerr" || fam == "gopanic-callback" {
			if re != nil {
				out.Probe("error_exits", 1)
			}
			continue
		}
		if wantErr && re == nil {
			out.HarnessError = fmt.Sprintf("execution %d: family %s was expected to end with a run-time error but did not; output %q\n%s", i, fam, outputs[i], src)
			return out
		}
		if !wantErr && re != nil {
			out.HarnessError = fmt.Sprintf("execution %d: family %s ended with an unexpected error %v\n%s", i, fam, re, src)
			return out
		}
		if re != nil {
			out.Probe("error_exits", 1)
		}
	}
	// what is still alive at quiescence?
	egoIDs := map[string]bool{}
	for _, l := range res.LeftoverTasks {
		if strings.Contains(l, "language/bytecode/goroutine.go") {
			egoIDs[strings.SplitN(l, " ", 2)[0]] = true
		}
	}
	ego, other := len(egoIDs), []string{}
	for _, l := range res.LeftoverTasks {
		id := strings.SplitN(l, " ", 2)[0]
		if egoIDs[id] {
			continue
		}
		// helpers of an unfinished Ego goroutine (its execution context's signal watcher)
		// live exactly as long as it does: they belong to "goroutines the program started
		// and has not finished"
		if i := strings.LastIndex(id, "."); i > 0 && egoIDs[id[:i]] {
			continue
		}
		other = append(other, l)
	}
	if len(other) > 0 {
		out.Fail("C09/leaked-goroutine", "after %d execution(s) of a %q program and 10 simulated minutes, %d goroutine(s) started by the interpreter are still alive: %v", execs, fam, len(other), other)
		return out
	}
	if want := blockedPer * execs; ego != want {
		out.Fail("C09/ego-goroutines-alive", "after %d execution(s) of a %q program, %d Ego goroutines are still alive, %d were left blocked by the program itself: %v", execs, fam, ego, want, res.LeftoverTasks)
	}
	if ego > 0 {
		out.Probe("program_own_blocked_goroutines", ego)
	}
	return out
}
