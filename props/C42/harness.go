package svcharness

// C42 — Concurrent service requests do not see each other (engine svc-sched).
// External harness package (virtual dir internal/verifsim/svcharness). DESIGN.md §3 C42.
//
// Real router.ServeHTTP -> Authenticate -> services.ServiceHandler (in-process mode) ->
// service cache -> compiler -> VM, for a batch of 2..5 requests with pairwise distinct
// parameters, bodies, headers and authenticated users. Each batch is served twice inside
// one simulated process: first one request at a time (reference), then — after flushing the
// service cache, so that first-request compilation races are included — concurrently under
// the seeded scheduler (bytecode-instruction and lock granularity). Every concurrent
// response must equal the reference response of the same request.

import (
	"fmt"
	"net/http"
	"net/http/httptest"
	"os"
	"path/filepath"
	"regexp"
	"sort"
	"strings"
	stdsync "sync"
	"testing"
	"time"

	"golang.org/x/crypto/bcrypt"

	"github.com/tucats/ego/internal/caches"
	"github.com/tucats/ego/internal/cli/settings"
	"github.com/tucats/ego/internal/defs"
	"github.com/tucats/ego/internal/router"
	"github.com/tucats/ego/internal/server/auth"
	"github.com/tucats/ego/internal/server/services"
	"github.com/tucats/ego/internal/verifsim/sim"
	"github.com/tucats/ego/internal/verifsim/simrun"
	sync "github.com/tucats/ego/internal/verifsim/sync"
)

func TestVerifSim(t *testing.T) { simrun.Main(t, c42Engine{}) }

type c42Engine struct{}

func (c42Engine) Name() string     { return "svc-sched" }
func (c42Engine) Property() string { return "C42" }

// WarmupCase makes every warm-up run request every endpoint once: the first compilation of a
// service in a process initialises the packages it imports for good (one lock operation more
// than later compilations), so a counted run must never be the first to use an endpoint.
func (c42Engine) WarmupCase(c *simrun.Case, i int) {
	c.Ops = nil
	for ep := 0; ep < c42Endpoints; ep++ {
		c.Ops = append(c.Ops, simrun.Op{C: ep + 1, K: "req", A: []int64{int64((ep + i) % c42Endpoints), int64(ep % len(c42Users)), int64(10*ep + 1 + i), int64(2 + i)}})
	}
	// (and the run-time-error path of the failing service, in both waves)
	c.Ops = append(c.Ops, simrun.Op{C: c42Endpoints + 1, K: "req", A: []int64{7, 1, 5, 3, 0}}, simrun.Op{C: c42Endpoints + 2, K: "req", A: []int64{7, 2, 6, 6, 1}},
		simrun.Op{C: c42Endpoints + 3, K: "req", A: []int64{0, 2, 7, 4, 1}})
}

// ---- generated stateless services (no package-level state)

var c42Services = map[string]string{
	"vs/mix.ego": `@endpoint get path="/services/vs/mix/{{id}}" parameter="n:int","who:string"

import "http"

func repeat(s string, n int) string {
    out := ""
    for i := 0; i < n; i = i + 1 {
        out = out + s
    }
    return out
}

func handler(req http.Request, w *http.ResponseWriter) {
    id := req.URL.Parts["id"]
    total := 0
    for i := 0; i < 12; i = i + 1 {
        total = total + len(id) * i
    }
    label := repeat(id, 2) + ":" + fmt.Sprintf("%v", req.Username)
    result := {
        id:     id,
        user:   req.Username,
        label:  label,
        total:  total,
        params: req.Parameters,
        method: req.Method,
        auth:   req.Authenticated,
    }
    w.Header().Add("Content-Type", "application/json")
    w.Header().Add("X-Echo-Id", id)
    w.WriteHeader(200)
    w.WriteJSON(result)
}
`,
	"vs/body.ego": `@endpoint post path="/services/vs/body"

import "http"
import "strings"

func shout(s string) string {
    return strings.ToUpper(s) + "!"
}

func handler(req http.Request, w *http.ResponseWriter) {
    body := req.Body
    words := strings.Split(body, " ")
    count := 0
    longest := ""
    for _, wd := range words {
        count = count + 1
        if len(wd) > len(longest) {
            longest = wd
        }
    }
    tag := ""
    h := req.Headers["X-Tag"]
    if h != nil {
        tag = fmt.Sprintf("%v", h)
    }
    result := {
        user:    req.Username,
        count:   count,
        longest: shout(longest),
        body:    body,
        tag:     tag,
    }
    w.Header().Add("Content-Type", "application/json")
    w.WriteHeader(201)
    w.WriteJSON(result)
}
`,
	"vs/loop.ego": `@endpoint get path="/services/vs/loop/{{a}}/{{b}}"

import "http"
import "strconv"

func handler(req http.Request, w *http.ResponseWriter) {
    a, e1 := strconv.Atoi(req.URL.Parts["a"])
    b, e2 := strconv.Atoi(req.URL.Parts["b"])
    if e1 != nil || e2 != nil {
        w.WriteHeader(400)
        w.Write("bad numbers")
        return
    }
    acc := 0
    parts := []int{}
    for i := a; i < a + b; i = i + 1 {
        acc = acc + i * 3
        parts = append(parts, acc)
    }
    msg := fmt.Sprintf("a=%d b=%d acc=%d user=%v n=%d", a, b, acc, req.Username, len(parts))
    w.WriteHeader(200)
    w.Write(msg)
}
`,
}

func init() {
	c42Services["vs/rev.ego"] = `@endpoint get path="/services/vs/rev/{{word}}" parameter="q:int"

import "http"
import "strings"

func reverse(s string) string {
    out := ""
    for i := len(s) - 1; i >= 0; i = i - 1 {
        out = out + s[i:i+1]
    }
    return out
}

func handler(req http.Request, w *http.ResponseWriter) {
    word := req.URL.Parts["word"]
    m := map[string]int{}
    for i := 0; i < len(word); i = i + 1 {
        ch := word[i:i+1]
        m[ch] = i
    }
    distinct := len(m)
    msg := fmt.Sprintf("%s|%s|%d|%s|%v", word, reverse(word), distinct, strings.ToUpper(fmt.Sprintf("%v", req.Username)), req.Parameters["q"])
    w.WriteHeader(200)
    w.Write(msg)
}
`
}

// a service that reads its URL part through the bare symbol the server defines for it
// (service.go: "make the symbols present in the symbol table as well")
func init() {
	c42Services["vs/bare.ego"] = `@endpoint get path="/services/vs/bare/{{item}}"

import "http"

func handler(req http.Request, w *http.ResponseWriter) {
    msg := fmt.Sprintf("%v|%v|%v", item, req.URL.Parts["item"], req.Username)
    w.WriteHeader(200)
    w.Write(msg)
}
`
}

// a service that ends in a run-time error for some inputs (integer division by zero): the failing request
// is answered 500, and nothing of it may be visible to the requests that come after it
func init() {
	c42Services["vs/div.ego"] = `@endpoint get path="/services/vs/div/{{n}}/{{d}}"

import "http"
import "strconv"

func handler(req http.Request, w *http.ResponseWriter) {
    n, _ := strconv.Atoi(req.URL.Parts["n"])
    d, _ := strconv.Atoi(req.URL.Parts["d"])
    total := 0
    w.Write(fmt.Sprintf("begin n=%d d=%d user=%v;", n, d, req.Username))
    for i := 1; i < 6; i = i + 1 {
        total = total + (n * i) / d
    }
    w.WriteHeader(200)
    w.Write(fmt.Sprintf("n=%d d=%d total=%d user=%v", n, d, total, req.Username))
}
`
}

const c42Endpoints = 8

var (
	c42Lib  string
	c42Once bool
)

type c42Auth struct{ users map[string]defs.User }

func (a *c42Auth) ReadUser(session int, name string, doNotLog bool) (defs.User, error) {
	if u, ok := a.users[strings.ToLower(name)]; ok {
		return u, nil
	}
	return defs.User{}, fmt.Errorf("no such user: %s", name)
}
func (a *c42Auth) WriteUser(session int, user defs.User) error { a.users[strings.ToLower(user.Name)] = user; return nil }
func (a *c42Auth) DeleteUser(session int, name string) error   { delete(a.users, strings.ToLower(name)); return nil }
func (a *c42Auth) ListUsers(bool) map[string]defs.User          { return a.users }
func (a *c42Auth) Flush() error                                 { return nil }
func (a *c42Auth) Close() error                                 { return nil }

var c42Users = []string{"", "alice", "bob", "carol", "dave"}

func c42Prepare() error {
	if c42Once {
		return nil
	}
	root, err := os.MkdirTemp(os.Getenv("TMPDIR"), "c42-lib-")
	if err != nil {
		return err
	}
	for name, src := range c42Services {
		p := filepath.Join(root, "services", name)
		os.MkdirAll(filepath.Dir(p), 0o755)
		if err := os.WriteFile(p, []byte(src), 0o644); err != nil {
			return err
		}
	}
	// two shipped services, copied verbatim from the repository's lib directory
	for _, rel := range []string{"factor.ego", "unit-test/echo-post.ego"} {
		b, err := os.ReadFile(filepath.Join("/repo/lib/services", rel))
		if err != nil {
			b, err = os.ReadFile(filepath.Join(os.Getenv("VERIF_REPO_LIB"), "services", rel))
		}
		if err == nil {
			p := filepath.Join(root, "services", rel)
			os.MkdirAll(filepath.Dir(p), 0o755)
			os.WriteFile(p, b, 0o644)
		}
	}
	c42Lib = root
	users := map[string]defs.User{}
	for _, u := range c42Users[1:] {
		h, _ := bcrypt.GenerateFromPassword([]byte("pw-"+u), bcrypt.MinCost)
		users[u] = defs.User{Name: u, Password: string(h), Permissions: []string{defs.LogonPermission}}
	}
	auth.AuthService = &c42Auth{users: users}
	// the runtime library (lib/packages/*.ego: http.WriteJSON, math.Factor, ...) is read from the repository itself
	if root := os.Getenv("VERIF_REPO_ROOT"); root != "" {
		settings.SetDefault(defs.EgoPathSetting, root)
	} else {
		settings.SetDefault(defs.EgoPathSetting, "/repo")
	}
	settings.SetDefault(defs.AutoImportSetting, "true")
	settings.SetDefault(defs.ExtensionsEnabledSetting, "true")
	settings.SetDefault(defs.ChildServicesSetting, "false")
	c42Once = true
	return nil
}

func (c42Engine) Generate(seed uint64, tier string) *simrun.Case {
	r := sim.NewRand(seed)
	c := &simrun.Case{Prop: "C42", Engine: "svc-sched", Seed: seed, SchedSeed: sim.Mix(seed, 42), Knobs: map[string]int64{}}
	n := 2 + r.Intn(4)
	c.Knobs["maxcache"] = []int64{0, 1, 20}[r.Intn(3)]
	c.Knobs["max_free"] = []int64{0, 4, 30, 200}[r.Intn(4)]
	c.Knobs["preempt_num"] = 1
	c.Knobs["preempt_den"] = []int64{1, 2, 6}[r.Intn(3)]
	// simulated CPU time per scheduling decision: the service cache ages entries by wall
	// clock and its eviction loop does not terminate when all ages are equal (frozen clock)
	c.Knobs["tick_ns"] = []int64{1000, 20000}[r.Intn(2)]
	same := r.Intn(c42Endpoints) // favourite endpoint so that same-endpoint races are common
	for i := 0; i < n; i++ {
		ep := same
		if r.Chance(1, 3) {
			ep = r.Intn(c42Endpoints)
		}
		// A = [endpoint, user, v1, v2, wave]; all values pairwise distinct across the batch (i is mixed in)
		c.Ops = append(c.Ops, simrun.Op{C: i + 1, K: "req", A: []int64{int64(ep), int64(r.Intn(len(c42Users))), int64(10*i + 1 + r.Intn(9)), int64(2 + r.Intn(5)), 0}})
	}
	if r.Chance(1, 2) {
		// two waves on one server: the requests of the second wave start when the first wave has been answered
		// (what an earlier request left behind in the server meets overlapping later requests)
		k := 1 + r.Intn(n-1)
		for i := k; i < n; i++ {
			c.Ops[i].A[4] = 1
		}
		if r.Chance(1, 2) {
			// ... and the first wave contains a request that ends in a run-time error
			c.Ops[r.Intn(k)].A = []int64{7, int64(r.Intn(len(c42Users))), int64(1 + r.Intn(9)), []int64{3, 6}[r.Intn(2)], 0}
		}
	}
	// swarm: in two thirds of the runs every mutex release is followed by a scheduling point (a goroutine can lose
	// the processor right after an Unlock, before its next statement)
	c.Knobs["unlock_yield"] = []int64{0, 1, 1}[r.Intn(3)]
	return c
}

type c42Resp struct {
	status int
	ctype  string
	echo   string
	body   string
}

var c42Volatile = regexp.MustCompile(`"(session|id|hostname|server|api|version|time|date)":\s*("[^"]*"|[0-9]+|\{[^}]*\})`)

func (r c42Resp) String() string {
	return fmt.Sprintf("%d|%s|%s|%s", r.status, r.ctype, r.echo, c42Volatile.ReplaceAllString(r.body, ""))
}

func c42Request(op simrun.Op) *http.Request {
	i := op.C
	v1, v2 := op.Arg(2), op.Arg(3)
	var req *http.Request
	switch op.Arg(0) % c42Endpoints {
	case 0:
		req = httptest.NewRequest("GET", fmt.Sprintf("/services/vs/mix/item%dx%d?n=%d&who=w%d", i, v1, v2, i), nil)
	case 1:
		req = httptest.NewRequest("POST", "/services/vs/body", strings.NewReader(fmt.Sprintf("alpha%d beta%dgamma delta%d", i, v1*7, v2)))
		req.Header.Set("X-Tag", fmt.Sprintf("tag-%d-%d", i, v1))
	case 2:
		req = httptest.NewRequest("GET", fmt.Sprintf("/services/vs/loop/%d/%d", v1, v2), nil)
	case 3:
		req = httptest.NewRequest("GET", fmt.Sprintf("/services/vs/rev/w%dord%d?q=%d", v1, i, v2), nil)
	case 6:
		req = httptest.NewRequest("GET", fmt.Sprintf("/services/vs/bare/thing%dof%d", v1, i), nil)
	case 7:
		req = httptest.NewRequest("GET", fmt.Sprintf("/services/vs/div/%d/%d", v1*10+int64(i), v2%3), nil)
	case 5:
		req = httptest.NewRequest("GET", fmt.Sprintf("/services/factor/%d", v1*6+int64(i)), nil)
	default:
		req = httptest.NewRequest("POST", "/services/unit-test/echo", strings.NewReader(fmt.Sprintf("{\"n\": %d, \"who\": \"r%d\"}", v1, i)))
	}
	req.Header.Set("Accept", "application/json")
	if u := c42Users[int(op.Arg(1))%len(c42Users)]; u != "" {
		req.SetBasicAuth(u, "pw-"+u)
	}
	return req
}

func c42Serve(rt *router.Router, op simrun.Op) c42Resp {
	w := httptest.NewRecorder()
	rt.ServeHTTP(w, c42Request(op))
	return c42Resp{status: w.Code, ctype: w.Header().Get("Content-Type"), echo: w.Header().Get("X-Echo-Id"), body: w.Body.String()}
}

func c42Router() (*router.Router, error) {
	rt := router.NewRouter("verifsim")
	if err := services.DefineLibHandlers(rt, c42Lib, "services"); err != nil {
		return nil, err
	}
	return rt, nil
}

func (c42Engine) Execute(t *testing.T, c *simrun.Case, keepLog bool) *simrun.Outcome {
	out := &simrun.Outcome{}
	if err := c42Prepare(); err != nil {
		out.HarnessError = err.Error()
		return out
	}
	var res sim.Result
	ref := make([]c42Resp, len(c.Ops))
	iso := make([]c42Resp, len(c.Ops))
	got := make([]c42Resp, len(c.Ops))
	var mu stdsync.Mutex
	var setupErr error
	var pan any
	opt := c.SchedOptions(keepLog)
	opt.MaxSteps = 1500000
	p := simrun.Bubble(t, func() {
		caches.VerifSimReset()
		router.VerifSimResetRateLimit()
		services.MaxCachedEntries = int(c.Knob("maxcache", 20))
		res = sim.Run(opt, func() {
			defer func() { pan = recover() }()
			// absolute reference: every request on its own, on a server that has seen no other request
			for i, op := range c.Ops {
				services.FlushServiceCache()
				rt, err := c42Router()
				if err != nil {
					setupErr = err
					return
				}
				iso[i] = c42Serve(rt, op)
			}
			// reference: one at a time, fresh router and service cache
			services.FlushServiceCache()
			rt, err := c42Router()
			if err != nil {
				setupErr = err
				return
			}
			for wave := int64(0); wave <= 1; wave++ {
				for i, op := range c.Ops {
					if op.Arg(4) == wave {
						ref[i] = c42Serve(rt, op)
					}
				}
			}
			// concurrent: fresh router (route use counters) and flushed cache again
			services.FlushServiceCache()
			rt, err = c42Router()
			if err != nil {
				setupErr = err
				return
			}
			for wave := int64(0); wave <= 1; wave++ {
				var wg sync.WaitGroup
				for i, op := range c.Ops {
					if op.Arg(4) != wave {
						continue
					}
					i, op := i, op
					wg.Add(1)
					sim.Go(func() {
						defer wg.Done()
						r := c42Serve(rt, op)
						mu.Lock()
						got[i] = r
						mu.Unlock()
					})
				}
				wg.Wait()
			}
			caches.VerifSimShutdown()
			time.Sleep(10 * time.Minute)
		})
	})
	if p != nil {
		out.HarnessError = fmt.Sprint(p)
		return out
	}
	if setupErr != nil {
		out.HarnessError = setupErr.Error()
		return out
	}
	out.FromSched(res)
	out.Nontrivial = res.MaxRunnable >= 2
	out.Probe("requests", len(c.Ops))
	out.Probe("bytecode_steps", res.Sites["step"])
	eps := map[int64]int{}
	for _, op := range c.Ops {
		eps[op.Arg(0)%c42Endpoints]++
	}
	for _, n := range eps {
		if n >= 2 {
			out.Probe("batches_with_same_endpoint_requests", 1)
			break
		}
	}
	var hist []string
	for i := range c.Ops {
		hist = append(hist, got[i].String())
	}
	out.Hash = simrun.HashStrings(res.Hash, hist...)
	if keepLog {
		for i := range c.Ops {
			out.Log = append(out.Log, fmt.Sprintf("req %d %s\n  alone:      %s\n  concurrent: %s", i, c.Ops[i], ref[i], got[i]))
		}
		out.Log = append(out.Log, fmt.Sprintf("leftover tasks: %v", res.LeftoverTasks))
	}
	if out.Violation != "" || out.Inconclusive != "" {
		return out
	}
	if pan != nil {
		out.Fail("C42/host-panic", "panic outside the router's recovery: %v", pan)
		return out
	}
	ok200 := 0
	for i := range c.Ops {
		expectError := c.Ops[i].Arg(0)%c42Endpoints == 7 && c.Ops[i].Arg(3)%3 == 0 // the division service with d = 0
		if expectError {
			out.Probe("requests_ending_in_runtime_error", 1)
			if iso[i].status < 500 {
				out.HarnessError = fmt.Sprintf("request %d should end in a run-time error but was answered %s", i, iso[i])
				return out
			}
		}
		if (ref[i].status >= 500 || ref[i].status == 0) && !expectError {
			out.HarnessError = fmt.Sprintf("reference (sequential) response of request %d is a server error: %s", i, ref[i])
			return out
		}
		if ref[i].status < 300 {
			ok200++
		}
		if iso[i].String() != ref[i].String() {
			out.Fail("C42/sees-earlier-request", "request %d (%s): served by a server that has seen no other request -> %s ; served after requests 0..%d, one at a time -> %s", i, c.Ops[i], iso[i], i-1, ref[i])
			break
		}
		if got[i].String() != ref[i].String() {
			out.Fail("C42/response-differs", "request %d (%s): served alone -> %s ; served concurrently -> %s", i, c.Ops[i], ref[i], got[i])
		}
	}
	out.Probe("successful_reference_responses", ok200)
	// C09's service part, as a probe with teeth: nothing started for these requests may still be alive
	var leaked []string
	for _, l := range res.LeftoverTasks {
		if strings.Contains(l, "internal/router/ratelimit.go") {
			continue // the one-time, process-wide pruner of the login rate limiter
		}
		leaked = append(leaked, l)
	}
	sort.Strings(leaked)
	if len(leaked) > 0 {
		out.Fail("C42/leaked-goroutine", "after the batch and 10 simulated minutes these goroutines are still alive: %v", leaked)
	}
	return out
}
