package router

// C21 — Native tokens are honoured exactly while valid (engine auth-hist).
// In-package harness mapped into internal/router. DESIGN.md §3 C21.
//
// Real tokens.New/Validate/Unwrap/Blacklist/Delete/Flush on a real SQLite revocation store
// (resources package), real caches with their sweepers on the fake clock, real
// Session.Authenticate behind a real route. Operations run in phases; the operations of one
// phase run concurrently (1-3 client tasks) under the seeded scheduler, so that a validation
// can interleave with a revocation at every lock acquisition. Reference model: a token is
// valid iff issued by this server, byte-for-byte unmodified, not expired, id not revoked.

import (
	"fmt"
	"net/http"
	"net/http/httptest"
	"os"
	"path/filepath"
	"strings"
	stdsync "sync"
	"testing"
	"time"

	"github.com/tucats/ego/internal/caches"
	"github.com/tucats/ego/internal/cli/settings"
	"github.com/tucats/ego/internal/defs"
	"github.com/tucats/ego/internal/language/tokens"
	"github.com/tucats/ego/internal/server/auth"
	"github.com/tucats/ego/internal/verifsim/sim"
	"github.com/tucats/ego/internal/verifsim/simrun"
	sync "github.com/tucats/ego/internal/verifsim/sync"
)

func TestVerifSim(t *testing.T) { simrun.Main(t, c21Engine{}) }

type c21Engine struct{}

func (c21Engine) Name() string     { return "auth-hist" }
func (c21Engine) Property() string { return "C21" }

var c21Lifetimes = []string{"30s", "15m", "2h"}
var c21LifeDur = []time.Duration{30 * time.Second, 15 * time.Minute, 2 * time.Hour}
var c21Advances = []int64{1, 5, 28, 33, 59, 62, 118, 125, 890, 910, 3500, 7190, 7210}
var c21CacheClasses = []int{caches.TokenCache, caches.BlacklistCache, caches.AuthCache}

const c21Slots = 3

// Ops (A[0] = phase for all):
//
//	issue     [ph, slot, user(0/1), lifetime idx]
//	validate  [ph, slot, via(0 router,1 Validate,2 Unwrap), mutation(0 none, 1.. kinds)]
//	revoke    [ph, slot]       unrevoke [ph, slot]      flush [ph]     purge [ph, class idx]
//	advance   [ph, seconds]    (alone, after the phase)
//	restart   [ph, rekey]      (alone, after the phase: caches and the store handle are lost, the store file survives)
func (c21Engine) Generate(seed uint64, tier string) *simrun.Case {
	r := sim.NewRand(seed)
	c := &simrun.Case{Prop: "C21", Engine: "auth-hist", Seed: seed, SchedSeed: sim.Mix(seed, 21), Knobs: map[string]int64{}}
	c.Knobs["cachesize"] = []int64{1, 2, 1000}[r.Intn(3)]
	c.Knobs["clients"] = int64(1 + r.Intn(3))
	c.Knobs["preempt_num"], c.Knobs["preempt_den"] = 1, []int64{1, 2, 4, 8, 16}[r.Intn(5)]
	nph := 3 + r.Intn(6)
	// phase 0 always issues two tokens
	c.Ops = append(c.Ops, simrun.Op{C: 1, K: "issue", A: []int64{0, 0, 0, int64(r.Intn(3))}}, simrun.Op{C: 1, K: "issue", A: []int64{0, 1, 1, int64(r.Intn(3))}})
	for ph := int64(1); ph <= int64(nph); ph++ {
		n := 1 + r.Intn(4)
		for i := 0; i < n; i++ {
			cl := 1 + r.Intn(int(c.Knobs["clients"]))
			slot := int64(r.Intn(c21Slots))
			if r.Chance(2, 3) {
				slot = int64(r.Intn(2))
			}
			switch x := r.Intn(100); {
			case x < 50:
				mut := int64(0)
				if r.Chance(1, 5) {
					mut = int64(1 + r.Intn(9))
				}
				c.Ops = append(c.Ops, simrun.Op{C: cl, K: "validate", A: []int64{ph, slot, int64(r.Intn(3)), mut}})
			case x < 68:
				c.Ops = append(c.Ops, simrun.Op{C: cl, K: "revoke", A: []int64{ph, slot}})
			case x < 78:
				c.Ops = append(c.Ops, simrun.Op{C: cl, K: "unrevoke", A: []int64{ph, slot}})
			case x < 82:
				c.Ops = append(c.Ops, simrun.Op{C: cl, K: "flush", A: []int64{ph}})
			case x < 90:
				c.Ops = append(c.Ops, simrun.Op{C: cl, K: "purge", A: []int64{ph, int64(r.Intn(3))}})
			default:
				c.Ops = append(c.Ops, simrun.Op{C: cl, K: "issue", A: []int64{ph, slot, int64(r.Intn(2)), int64(r.Intn(3))}})
			}
		}
		// scenario bias (1 phase in 6, needs 2 clients): a validation through the router races a
		// change of the same token's revocation state; the next phase looks at the token again
		if c.Knobs["clients"] >= 2 && r.Chance(1, 6) {
			slot := int64(r.Intn(2))
			kind := []string{"revoke", "revoke", "unrevoke"}[r.Intn(3)]
			c.Ops = append(c.Ops, simrun.Op{C: 1, K: "validate", A: []int64{ph, slot, int64(r.Intn(2)) * 2, 0}},
				simrun.Op{C: 2, K: kind, A: []int64{ph, slot}})
			ph++
			c.Ops = append(c.Ops, simrun.Op{C: 1, K: "validate", A: []int64{ph, slot, 0, 0}}, simrun.Op{C: 2, K: "validate", A: []int64{ph, slot, int64(1 + r.Intn(2)), 0}})
			continue
		}
		if r.Chance(1, 2) {
			c.Ops = append(c.Ops, simrun.Op{C: 0, K: "advance", A: []int64{ph, c21Advances[r.Intn(len(c21Advances))]}})
		}
		if r.Chance(1, 8) {
			// server restart after the phase: only the revocation store on disk survives; one restart in three comes
			// up with a different token key
			rekey := int64(0)
			if r.Chance(1, 3) {
				rekey = 1
			}
			c.Ops = append(c.Ops, simrun.Op{C: 0, K: "restart", A: []int64{ph, rekey}})
		}
	}
	// swarm: in two thirds of the runs every mutex release is followed by a scheduling point (a goroutine can lose
	// the processor right after an Unlock, before its next statement)
	c.Knobs["unlock_yield"] = []int64{0, 1, 1}[r.Intn(3)]
	return c
}

type c21Store struct{ users map[string]defs.User }

func (a *c21Store) ReadUser(session int, name string, doNotLog bool) (defs.User, error) {
	if u, ok := a.users[strings.ToLower(name)]; ok {
		return u, nil
	}
	return defs.User{}, fmt.Errorf("no such user: %s", name)
}
func (a *c21Store) WriteUser(session int, user defs.User) error { return nil }
func (a *c21Store) DeleteUser(session int, name string) error   { return nil }
func (a *c21Store) ListUsers(bool) map[string]defs.User         { return a.users }
func (a *c21Store) Flush() error                                { return nil }
func (a *c21Store) Close() error                                { return nil }

type c21Tok struct {
	str     string
	id      string
	user    string
	expires time.Duration
	revoked bool
	unsure  bool // conflicting revoke/un-revoke in one phase: real order unknown until the next definite change
	exists  bool
	keyGen  int // generation of the server token key it was issued under
}

// c21Mutate: every kind of single edit of the hex token string.
func c21Mutate(s string, kind int) string {
	if len(s) < 80 {
		return s + "00"
	}
	flip := func(i int) string {
		b := []byte(s)
		if b[i] == '0' {
			b[i] = '1'
		} else {
			b[i] = '0'
		}
		return string(b)
	}
	switch kind {
	case 1:
		return flip(1) // magic
	case 2:
		return flip(12) // salt
	case 3:
		return flip(44) // nonce
	case 4:
		return flip(len(s) / 2) // ciphertext
	case 5:
		return flip(len(s) - 3) // tag
	case 6:
		return s[:len(s)-2] // truncated
	case 7:
		return s + "00" // extended
	case 8:
		return s[:20] + "zz" + s[22:] // not hex
	default:
		return s[2:] // first byte dropped
	}
}

type c21Obs struct {
	op       int
	accepted bool
	user     string
	detail   string
}

func (c21Engine) Execute(t *testing.T, c *simrun.Case, keepLog bool) *simrun.Outcome {
	out := &simrun.Outcome{}
	var res sim.Result
	var mu stdsync.Mutex
	var bad []string
	var hist []string
	var setupErr error
	dir, err := os.MkdirTemp(os.Getenv("TMPDIR"), "c21-")
	if err != nil {
		out.HarnessError = err.Error()
		return out
	}
	defer os.RemoveAll(dir)
	p := simrun.Bubble(t, func() {
		caches.VerifSimReset()
		tokens.VerifSimReset()
		loginAttemptsMu = sync.Mutex{}
		loginAttempts = map[string]*loginRecord{}
		scanOnce = sync.Once{}
		settings.SetDefault(defs.ServerMaxCacheSizeSetting, fmt.Sprint(c.Knob("cachesize", 1000)))
		settings.SetDefault(defs.ServerTokenKeySetting, "verifsim-fixed-token-key-0123456789abcdef")
		settings.SetDefault(defs.ServerAuthoritySetting, "")
		caches.MaxCacheSize = int(c.Knob("cachesize", 1000))
		auth.AuthService = &c21Store{users: map[string]defs.User{
			"u0": {Name: "u0", Permissions: []string{defs.LogonPermission}},
			"u1": {Name: "u1", Permissions: []string{defs.LogonPermission}},
		}}
		if err := tokens.SetDatabasePath("sqlite3://" + filepath.Join(dir, "blacklist.db")); err != nil {
			setupErr = err
			return
		}
		rt := NewRouter("verifsim")
		rt.New("/probe", func(s *Session, w http.ResponseWriter, r *http.Request) int {
			w.WriteHeader(http.StatusOK)
			w.Write([]byte(s.User))
			return http.StatusOK
		}, http.MethodGet).Authentication(true)
		start := time.Now()
		toks := make([]c21Tok, c21Slots)
		keyGen := 0
		res = sim.Run(c.SchedOptions(keepLog), func() {
			maxPh := int64(0)
			for _, op := range c.Ops {
				if op.Arg(0) > maxPh {
					maxPh = op.Arg(0)
				}
			}
			nclients := int(c.Knob("clients", 1))
			for ph := int64(0); ph <= maxPh; ph++ {
				// model state at phase start
				before := append([]c21Tok{}, toks...)
				after := append([]c21Tok{}, toks...)
				now := time.Since(start)
				// apply this phase's mutations to "after" (their mutual order does not matter for
				// the per-slot end state except revoke/unrevoke/flush of the same slot in one phase,
				// where any order is possible: then the end state of that slot is unknown)
				unknown := map[int]bool{}    // validations of this slot in this phase are not judged
				conflict := map[int]bool{}   // the slot's revocation state after this phase is not known
				touched := map[int]string{}  // last kind of change applied to the slot in list order
				by := map[int]map[int]bool{} // slot -> clients changing it in this phase
				note := func(s int, cl int, kind string) {
					if by[s] == nil {
						by[s] = map[int]bool{}
					}
					by[s][cl] = true
					if k, ok := touched[s]; ok && k != kind && len(by[s]) > 1 {
						conflict[s] = true // different changes by different clients: real order unknown
					}
					touched[s] = kind
					unknown[s] = true
				}
				for _, op := range c.Ops {
					if op.Arg(0) != ph {
						continue
					}
					s := int(op.Arg(1)) % c21Slots
					switch op.K {
					case "issue":
						note(s, op.C, "issue")
						after[s].exists, after[s].revoked = true, false
					case "revoke":
						if after[s].exists {
							note(s, op.C, "revoke")
							after[s].revoked = true
						}
					case "unrevoke":
						if after[s].exists {
							note(s, op.C, "unrevoke")
							after[s].revoked = false
						}
					case "flush":
						for i := range after {
							if after[i].exists {
								note(i, op.C, "unrevoke")
								after[i].revoked = false
							}
						}
					}
				}
				// a token issued into a slot while ANOTHER client revokes / un-revokes that slot (or flushes the list) in
				// the same phase: whether the change hits the old token, the new one or nothing depends on the
				// interleaving, so the new token's revocation state is unknown until the next definite change
				for _, a := range c.Ops {
					if a.Arg(0) != ph || a.K != "issue" {
						continue
					}
					s := int(a.Arg(1)) % c21Slots
					for _, b := range c.Ops {
						ca, cb := a.C, b.C
						if ca < 1 || ca > nclients {
							ca = 1
						}
						if cb < 1 || cb > nclients {
							cb = 1
						}
						if b.Arg(0) != ph || ca == cb {
							continue
						}
						if b.K == "flush" || ((b.K == "revoke" || b.K == "unrevoke") && int(b.Arg(1))%c21Slots == s) {
							conflict[s], unknown[s] = true, true
							if _, ok := touched[s]; !ok {
								touched[s] = "issue"
							}
						}
					}
				}
				var wg sync.WaitGroup
				for cl := 1; cl <= nclients; cl++ {
					var mine []int
					for i, op := range c.Ops {
						k := op.C
						if k < 1 || k > nclients {
							k = 1
						}
						if op.Arg(0) == ph && op.K != "advance" && k == cl {
							mine = append(mine, i)
						}
					}
					if len(mine) == 0 {
						continue
					}
					wg.Add(1)
					sim.Go(func() {
						defer wg.Done()
						for _, i := range mine {
							op := c.Ops[i]
							s := int(op.Arg(1)) % c21Slots
							switch op.K {
							case "issue":
								user := fmt.Sprintf("u%d", op.Arg(2)%2)
								li := int(op.Arg(3)) % len(c21Lifetimes)
								str, err := tokens.New(user, "", c21Lifetimes[li], "6ba7b810-9dad-11d1-80b4-00c04fd430c8", 1)
								if err != nil {
									mu.Lock()
									bad = append(bad, fmt.Sprintf("harness: tokens.New failed: %v", err))
									mu.Unlock()
									continue
								}
								tk, err := tokens.Unwrap(str, 1)
								if err != nil || tk == nil {
									mu.Lock()
									bad = append(bad, fmt.Sprintf("fresh-token-rejected: op %d: a token just issued for %s is rejected: %v", i, user, err))
									mu.Unlock()
									continue
								}
								mu.Lock()
								toks[s] = c21Tok{str: str, id: tk.TokenID.String(), user: user, expires: time.Since(start) + c21LifeDur[li], exists: true, keyGen: keyGen}
								mu.Unlock()
							case "revoke":
								mu.Lock()
								tk := toks[s]
								mu.Unlock()
								if tk.exists {
									// (an id that is already on the list is refused with a constraint error; it stays revoked)
									_ = tokens.Blacklist(tk.id)
								}
							case "unrevoke":
								mu.Lock()
								tk := toks[s]
								mu.Unlock()
								if tk.exists {
									tokens.Delete(tk.id) // ErrNotFound when it was not revoked: fine
								}
							case "flush":
								tokens.Flush()
							case "purge":
								caches.Purge(c21CacheClasses[int(op.Arg(1))%len(c21CacheClasses)])
							case "validate":
								mu.Lock()
								tk := toks[s]
								mu.Unlock()
								if !tk.exists {
									continue
								}
								str := tk.str
								mutated := op.Arg(3) != 0
								if mutated {
									str = c21Mutate(str, int(op.Arg(3)))
								}
								var accepted bool
								var who string
								switch op.Arg(2) % 3 {
								case 0:
									req := httptest.NewRequest(http.MethodGet, "/probe", nil)
									req.Header.Set("Authorization", "Bearer "+str)
									w := httptest.NewRecorder()
									rt.ServeHTTP(w, req)
									accepted = w.Code == http.StatusOK
									who = w.Body.String()
								case 1:
									accepted, _ = tokens.Validate(str, 1)
									who = tk.user
								default:
									x, err := tokens.Unwrap(str, 1)
									accepted = err == nil && x != nil
									if accepted {
										who = x.Name
									}
								}
								// judge
								valid := func(m c21Tok) (bool, bool) { // (valid, definite)
									if mutated {
										return false, true
									}
									if !m.exists {
										return false, true
									}
									if m.keyGen != keyGen {
										return false, true // issued under a token key that is not the current one
									}
									if now == m.expires || m.unsure {
										return false, false
									}
									return now < m.expires && !m.revoked, true
								}
								vb, db := valid(before[s])
								va, da := valid(after[s])
								definite := db && da && vb == va && !unknown[s]
								mu.Lock()
								hist = append(hist, fmt.Sprintf("%d:%s:%v", i, op.K, accepted))
								if definite && accepted != vb {
									what := "accepted"
									class := "invalid-token-accepted"
									if !accepted {
										what, class = "rejected", "valid-token-rejected"
									}
									why := fmt.Sprintf("expires at %v, revoked=%v, mutated=%v, issued under the current token key=%v", before[s].expires, before[s].revoked, mutated, before[s].keyGen == keyGen)
									bad = append(bad, fmt.Sprintf("%s: op %d (%s via %s) at t=%v: token of %s %s although the model says valid=%v (%s)", class, i, op, []string{"router", "tokens.Validate", "tokens.Unwrap"}[op.Arg(2)%3], now, tk.user, what, vb, why))
								}
								if accepted && !mutated && who != tk.user {
									bad = append(bad, fmt.Sprintf("wrong-identity: op %d: token of %s authenticated as %q", i, tk.user, who))
								}
								mu.Unlock()
							}
						}
					})
				}
				wg.Wait()
				// commit the model
				mu.Lock()
				for i := range toks {
					if _, ok := touched[i]; ok && toks[i].exists {
						toks[i].revoked = after[i].revoked
						toks[i].unsure = conflict[i]
					}
				}
				mu.Unlock()
				for _, op := range c.Ops {
					if op.K == "advance" && op.Arg(0) == ph {
						time.Sleep(time.Duration(op.Arg(1)) * time.Second)
					}
				}
				for _, op := range c.Ops {
					if op.K == "restart" && op.Arg(0) == ph {
						// the process goes away and comes back: every cache and the store handle are gone, the
						// revocation store on disk (and the configuration) survive
						tokens.Close()
						for _, cl := range []int{caches.TokenCache, caches.BlacklistCache, caches.AuthCache} {
							caches.PurgeLocal(cl)
						}
						tokens.VerifSimReset()
						if op.Arg(1) == 1 {
							keyGen++
							settings.SetDefault(defs.ServerTokenKeySetting, fmt.Sprintf("verifsim-other-token-key-%d-0123456789abcdef", keyGen))
							out.Probe("restarts_with_new_key", 1)
						}
						if err := tokens.SetDatabasePath("sqlite3://" + filepath.Join(dir, "blacklist.db")); err != nil {
							mu.Lock()
							bad = append(bad, "harness: reopen of the revocation store failed: "+err.Error())
							mu.Unlock()
						}
						out.Probe("restarts", 1)
					}
				}
			}
			tokens.Close()
			caches.VerifSimShutdown()
			time.Sleep(61 * time.Second)
		})
	})
	if p != nil {
		out.HarnessError = fmt.Sprint(p)
		return out
	}
	if setupErr != nil {
		out.HarnessError = setupErr.Error()
		return out
	}
	out.FromSched(res)
	out.Nontrivial = len(hist) >= 2
	out.Probe("validations", len(hist))
	out.Hash = simrun.HashStrings(res.Hash, hist...)
	if keepLog {
		out.Log = append(out.Log, "validations: "+strings.Join(hist, " "))
	}
	if out.Violation != "" || out.Inconclusive != "" {
		return out
	}
	for _, b := range bad {
		if strings.HasPrefix(b, "harness:") {
			out.HarnessError = b
			return out
		}
		out.Fail("C21/"+strings.SplitN(b, ":", 2)[0], "%s", b)
	}
	return out
}
