package cluster

// C29 — Cluster cache invalidation is bounded and complete (engine cluster-net).
// In-package harness mapped into internal/server/cluster. DESIGN.md §3 C29.
//
// 1..5 simulated nodes in one process. Each node has its own caches state, NodeID and router
// (with the real FlushCacheHandler behind a real route); the scheduler tags every task with
// its node and swaps the package-level state on a node switch. All nodes share one SQLite
// membership table written by the real upsertMember/RemoveMember. Between the nodes is the
// simulator's transport (http.DefaultTransport seam): per message it can drop, delay (also
// beyond the sender's 5 s timeout, so the flush is delivered although the sender saw an
// error), duplicate, or refuse (node down). Operations: purge of a cache class on a node
// (through the real caches.Purge, which fires the real OnPurge = BroadcastCacheFlush), member
// removal / re-join, node down / up, forged flush messages with hop counts 0..max+1.

import (
	"bytes"
	stdsql "database/sql"
	"encoding/json"
	"fmt"
	"io"
	"net/http"
	"net/http/httptest"
	"os"
	"path/filepath"
	"sort"
	"strings"
	stdsync "sync"
	"testing"
	"time"

	"github.com/tucats/ego/internal/caches"
	"github.com/tucats/ego/internal/cli/settings"
	"github.com/tucats/ego/internal/defs"
	"github.com/tucats/ego/internal/router"
	"github.com/tucats/ego/internal/verifsim/sim"
	"github.com/tucats/ego/internal/verifsim/simrun"
	sync "github.com/tucats/ego/internal/verifsim/sync"
)

func TestVerifSim(t *testing.T) { simrun.Main(t, c29Engine{}) }

type c29Engine struct{}

func (c29Engine) Name() string     { return "cluster-net" }
func (c29Engine) Property() string { return "C29" }
func (c29Engine) WarmupRuns() int  { return 2 }

var c29Classes = []int{caches.AuthCache, caches.TokenCache, caches.DSNCache}

// Ops: purge [phase, node, class] ; remove [phase, node] ; join [phase, node] ; down [phase, node] ; up [phase, node] ;
// forge [phase, node, class, hops]. Faults: drop/delay/dup [message index, seconds].
func (c29Engine) Generate(seed uint64, tier string) *simrun.Case {
	r := sim.NewRand(seed)
	c := &simrun.Case{Prop: "C29", Engine: "cluster-net", Seed: seed, SchedSeed: sim.Mix(seed, 29), Knobs: map[string]int64{}}
	n := 1 + r.Intn(5)
	c.Knobs["nodes"] = int64(n)
	c.Knobs["preempt_num"], c.Knobs["preempt_den"] = 1, []int64{1, 2, 5}[r.Intn(3)]
	faulty := r.Chance(2, 3)
	nph := 2 + r.Intn(6)
	for ph := int64(0); ph < int64(nph); ph++ {
		k := 1 + r.Intn(2)
		for i := 0; i < k; i++ {
			node := int64(1 + r.Intn(n))
			switch x := r.Intn(100); {
			case x < 62:
				c.Ops = append(c.Ops, simrun.Op{K: "purge", A: []int64{ph, node, int64(r.Intn(len(c29Classes)))}})
			case x < 70:
				c.Ops = append(c.Ops, simrun.Op{K: "remove", A: []int64{ph, node}})
			case x < 77:
				c.Ops = append(c.Ops, simrun.Op{K: "join", A: []int64{ph, node}})
			case x < 84:
				c.Ops = append(c.Ops, simrun.Op{K: "down", A: []int64{ph, node}})
			case x < 91:
				c.Ops = append(c.Ops, simrun.Op{K: "up", A: []int64{ph, node}})
			default:
				c.Ops = append(c.Ops, simrun.Op{K: "forge", A: []int64{ph, node, int64(r.Intn(len(c29Classes))), []int64{0, 1, 4, 5, 9}[r.Intn(5)]}})
			}
		}
	}
	if faulty {
		nf := 1 + r.Intn(5)
		for i := 0; i < nf; i++ {
			kind := []string{"drop", "delay", "delay", "dup"}[r.Intn(4)]
			c.Faults = append(c.Faults, simrun.Op{K: kind, A: []int64{int64(r.Intn(12)), []int64{1, 3, 6, 20}[r.Intn(4)]}})
		}
	}
	return c
}

type c29Node struct {
	id     int
	nodeID string
	member defs.ClusterMember
	c      *caches.VerifSimNode
	rt     *router.Router
	down   bool
}

type c29Msg struct {
	idx       int
	from, to  int
	sender    string
	cache     int
	hops      int
	fate      string // delivered | dropped | refused | delivered-late | delivered-twice
	forged    bool
	purgeSeq  int // >0 if the sender has purged locally at some time (its latest purge)
	phase     int
}

type c29Net struct {
	mu     stdsync.Mutex
	nodes  []*c29Node
	faults map[int]simrun.Op
	msgs   []*c29Msg
	fired  map[string]int
	lastPurge map[int]int // node -> sequence number of its latest local purge (0 = never purged)
	inbound map[string]int // task id -> >0 while that task is serving an inbound flush
	phase   int
}

func (n *c29Net) RoundTrip(req *http.Request) (*http.Response, error) {
	sim.Yield("net")
	body, _ := io.ReadAll(req.Body)
	var fr defs.ClusterFlushRequest
	json.Unmarshal(body, &fr)
	host := req.URL.Hostname()
	to := 0
	fmt.Sscanf(host, "node%d", &to)
	n.mu.Lock()
	m := &c29Msg{idx: len(n.msgs), to: to, sender: fr.SenderID, cache: fr.CacheID, hops: fr.Hops, forged: req.Header.Get("X-Forged") != ""}
	for _, nd := range n.nodes {
		if nd.nodeID == fr.SenderID {
			m.from = nd.id
		}
	}
	m.purgeSeq = n.lastPurge[m.from]
	m.phase = n.phase
	n.msgs = append(n.msgs, m)
	f, hasFault := n.faults[m.idx]
	var target *c29Node
	if to >= 1 && to < len(n.nodes) {
		target = n.nodes[to]
	}
	n.mu.Unlock()
	if target == nil || target.down {
		m.fate = "refused"
		n.mu.Lock()
		n.fired["node-down-refused"]++
		n.mu.Unlock()
		return nil, fmt.Errorf("dial tcp %s: connection refused (simulated)", host)
	}
	latency := 20 * time.Millisecond
	copies := 1
	if hasFault && !m.forged {
		n.mu.Lock()
		n.fired[f.K]++
		n.mu.Unlock()
		switch f.K {
		case "drop":
			m.fate = "dropped"
			select {
			case <-time.After(time.Duration(f.Arg(1)) * time.Second):
			case <-req.Context().Done():
			}
			sim.Yield("net-resume")
			return nil, fmt.Errorf("read tcp: connection reset (simulated loss)")
		case "delay":
			latency = time.Duration(f.Arg(1)) * time.Second
		case "dup":
			copies = 2
		}
	}
	resp := make(chan *http.Response, 2)
	for k := 0; k < copies; k++ {
		extra := time.Duration(k) * 2 * time.Second
		sim.Go(func() {
			sim.SetNode(target.id)
			time.Sleep(latency + extra)
			sim.Yield("net-deliver") // (after real blocking a task must pass the scheduler again so that its node's state is switched in)
			r2 := httptest.NewRequest(req.Method, req.URL.Path, bytes.NewReader(body))
			r2.Header = req.Header.Clone()
			w := httptest.NewRecorder()
			tid := sim.TaskID()
			n.mu.Lock()
			n.inbound[tid]++
			n.mu.Unlock()
			target.rt.ServeHTTP(w, r2)
			n.mu.Lock()
			n.inbound[tid]--
			if m.fate == "" {
				m.fate = "delivered"
			} else if m.fate == "delivered" {
				m.fate = "delivered-twice"
			}
			n.mu.Unlock()
			resp <- w.Result()
		})
	}
	select {
	case r := <-resp:
		sim.Yield("net-resume")
		return r, nil
	case <-req.Context().Done():
		sim.Yield("net-resume")
		n.mu.Lock()
		n.fired["delivered-after-sender-timeout"]++
		n.mu.Unlock()
		return nil, req.Context().Err()
	}
}

func (c29Engine) Execute(t *testing.T, c *simrun.Case, keepLog bool) *simrun.Outcome {
	out := &simrun.Outcome{}
	dir, err := os.MkdirTemp(os.Getenv("TMPDIR"), "c29-")
	if err != nil {
		out.HarnessError = err.Error()
		return out
	}
	defer os.RemoveAll(dir)
	nn := int(c.Knob("nodes", 1))
	net := &c29Net{faults: map[int]simrun.Op{}, fired: map[string]int{}, lastPurge: map[int]int{}, inbound: map[string]int{}}
	for _, f := range c.Faults {
		net.faults[int(f.Arg(0))] = f
	}
	saved := http.DefaultTransport
	defer func() { http.DefaultTransport = saved; caches.OnPurge = nil; ClusterName = ""; systemDB = nil }()
	var res sim.Result
	var herr string
	var hist []string
	var bad []string
	var mu stdsync.Mutex
	p := simrun.Bubble(t, func() {
		caches.VerifSimReset()
		settings.SetDefault(defs.ServerTokenKeySetting, "verifsim-cluster-token-key")
		ClusterName = "vs"
		db, err := stdsql.Open("sqlite", filepath.Join(dir, "system.db"))
		if err != nil {
			herr = err.Error()
			return
		}
		defer db.Close()
		dbProvider = "sqlite"
		if err := createClusterTable(db); err != nil {
			herr = err.Error()
			return
		}
		systemDB = db
		// node 0 = the harness itself (no server)
		net.nodes = []*c29Node{{id: 0, nodeID: "harness", c: caches.VerifSimNewNode()}}
		for j := 1; j <= nn; j++ {
			nd := &c29Node{id: j, nodeID: fmt.Sprintf("node-%d", j), c: caches.VerifSimNewNode()}
			nd.member = defs.ClusterMember{Name: ClusterName, NodeID: nd.nodeID, Host: fmt.Sprintf("node%d", j), Port: 4000 + j, Scheme: "http",
				JoinedAt: "2000-01-01T00:00:00Z", LastSeen: "2000-01-01T00:00:00Z", State: ActiveState}
			nd.rt = router.NewRouter(nd.nodeID)
			nd.rt.New("/services/cluster/flush", FlushCacheHandler, http.MethodPost)
			if err := upsertMember(db, nd.member); err != nil {
				herr = err.Error()
				return
			}
			net.nodes = append(net.nodes, nd)
		}
		http.DefaultTransport = net
		caches.OnPurge = BroadcastCacheFlush
		NodeID, ThisMember = "harness", defs.ClusterMember{}
		opt := c.SchedOptions(keepLog)
		opt.OnSwitch = func(from, to int) {
			if from < 0 || from >= len(net.nodes) || to < 0 || to >= len(net.nodes) {
				return
			}
			caches.VerifSimSwitch(net.nodes[from].c, net.nodes[to].c)
			NodeID, ThisMember = net.nodes[to].nodeID, net.nodes[to].member
		}
		active := map[int]bool{}
		for j := 1; j <= nn; j++ {
			active[j] = true
		}
		purgeSeq := 0
		type purgeRec struct {
			seq, node, class int
			peers            []int // active, other nodes at purge time
			canary           string
		}
		var purges []purgeRec
		res = sim.Run(opt, func() {
			maxPh := int64(0)
			for _, op := range c.Ops {
				if op.Arg(0) > maxPh {
					maxPh = op.Arg(0)
				}
			}
			for ph := int64(0); ph <= maxPh; ph++ {
				// canaries: every node gets a fresh entry in every class before the phase
				canary := fmt.Sprintf("canary-%d", ph)
				net.mu.Lock()
				net.phase = int(ph)
				net.mu.Unlock()
				for j := 1; j <= nn; j++ {
					sim.SetNode(j)
					for _, cl := range c29Classes {
						caches.Add(cl, canary, int(ph))
					}
				}
				sim.SetNode(0)
				var wg sync.WaitGroup
				for _, op := range c.Ops {
					if op.Arg(0) != ph {
						continue
					}
					op := op
					node := int(op.Arg(1))
					if node < 1 || node > nn {
						node = 1
					}
					switch op.K {
					case "remove":
						RemoveMember(db, net.nodes[node].nodeID)
						active[node] = false
						hist = append(hist, fmt.Sprintf("remove node%d", node))
					case "join":
						upsertMember(db, net.nodes[node].member)
						active[node] = true
						hist = append(hist, fmt.Sprintf("join node%d", node))
					case "down":
						net.nodes[node].down = true
						hist = append(hist, fmt.Sprintf("down node%d", node))
					case "up":
						net.nodes[node].down = false
						hist = append(hist, fmt.Sprintf("up node%d", node))
					}
				}
				// membership and availability are now fixed for this phase; purges and forged messages run concurrently
				for _, op := range c.Ops {
					if op.Arg(0) != ph {
						continue
					}
					op := op
					node := int(op.Arg(1))
					if node < 1 || node > nn {
						node = 1
					}
					switch op.K {
					case "purge":
						class := c29Classes[int(op.Arg(2))%len(c29Classes)]
						purgeSeq++
						pr := purgeRec{seq: purgeSeq, node: node, class: class, canary: canary}
						for j := 1; j <= nn; j++ {
							if j != node && active[j] {
								pr.peers = append(pr.peers, j)
							}
						}
						purges = append(purges, pr)
						hist = append(hist, fmt.Sprintf("purge#%d class %d on node%d (active peers %v)", pr.seq, class, node, pr.peers))
						wg.Add(1)
						sim.Go(func() {
							defer wg.Done()
							sim.SetNode(node)
							net.mu.Lock()
							net.lastPurge[node] = pr.seq
							net.mu.Unlock()
							caches.Purge(class)
						})
					case "forge":
						class := c29Classes[int(op.Arg(2))%len(c29Classes)]
						hops := int(op.Arg(3))
						hist = append(hist, fmt.Sprintf("forged flush class %d hops %d to node%d", class, hops, node))
						wg.Add(1)
						sim.Go(func() {
							defer wg.Done()
							body, _ := json.Marshal(defs.ClusterFlushRequest{CacheID: class, SenderID: "forger", Hops: hops})
							req, _ := http.NewRequest(http.MethodPost, fmt.Sprintf("http://node%d:%d/services/cluster/flush", node, 4000+node), bytes.NewReader(body))
							req.Header.Set("Authorization", ClusterAuthHeader())
							req.Header.Set("X-Forged", "1")
							cl := &http.Client{Timeout: 5 * time.Second}
							before := false
							resp, err := cl.Do(req)
							_ = before
							if err == nil {
								resp.Body.Close()
							}
							// what happened to the canary on that node is judged at quiescence
							mu.Lock()
							mu.Unlock()
						})
					}
				}
				wg.Wait()
				// quiescence: all messages (also the delayed ones) are delivered well within this time
				time.Sleep(40 * time.Second)
				// judge the phase
				sim.SetNode(0)
				net.mu.Lock()
				msgs := append([]*c29Msg{}, net.msgs...)
				net.mu.Unlock()
				type grp struct{ node, class int }
				groups := map[grp][]purgeRec{}
				for _, pr := range purges {
					if pr.canary == canary {
						groups[grp{pr.node, pr.class}] = append(groups[grp{pr.node, pr.class}], pr)
					}
				}
				var gkeys []grp
				for g := range groups {
					gkeys = append(gkeys, g)
				}
				sort.Slice(gkeys, func(a, b int) bool { return gkeys[a].node*100+gkeys[a].class < gkeys[b].node*100+gkeys[b].class })
				for _, g := range gkeys {
					prs := groups[g]
					for _, j := range prs[0].peers { // (membership is fixed within a phase)
						sent, delivered := 0, 0
						for _, m := range msgs {
							if !m.forged && m.phase == int(ph) && m.from == g.node && m.to == j && m.cache == g.class {
								sent++
								if strings.HasPrefix(m.fate, "delivered") {
									delivered++
								}
							}
						}
						sim.SetNode(j)
						has := caches.VerifSimHas(g.class, canary)
						sim.SetNode(0)
						mu.Lock()
						switch {
						case sent < len(prs):
							bad = append(bad, fmt.Sprintf("peer-not-notified: %d purge(s) of class %d on node%d in phase %d, but only %d flush message(s) were sent to active peer node%d", len(prs), g.class, g.node, ph, sent, j))
						case sent > len(prs):
							bad = append(bad, fmt.Sprintf("too-many-messages: %d purge(s) of class %d on node%d in phase %d caused %d flush messages to peer node%d", len(prs), g.class, g.node, ph, sent, j))
						case delivered > 0 && has:
							bad = append(bad, fmt.Sprintf("peer-kept-cache: purge of class %d on node%d: a flush was delivered to active peer node%d but the entry cached there before is still present", g.class, g.node, j))
						}
						if delivered > 0 {
							out.Probe("flushes_delivered_and_checked", 1)
						}
						mu.Unlock()
					}
				}
				// forged flushes above the hop limit must leave the cache alone
				for _, op := range c.Ops {
					if op.Arg(0) != ph || op.K != "forge" {
						continue
					}
					node := int(op.Arg(1))
					if node < 1 || node > nn {
						node = 1
					}
					class := c29Classes[int(op.Arg(2))%len(c29Classes)]
					if op.Arg(3) <= maxFlushHops {
						continue
					}
					// (only meaningful if nothing else legitimately flushed that class on that node in this phase)
					legit := false
					for _, m := range msgs {
						if m.to == node && m.cache == class && !(m.forged && m.hops > maxFlushHops) && strings.HasPrefix(m.fate, "delivered") {
							legit = true
						}
					}
					for _, pr := range purges {
						if pr.canary == canary && pr.node == node && pr.class == class {
							legit = true
						}
					}
					if legit || net.nodes[node].down {
						continue
					}
					sim.SetNode(node)
					has := caches.VerifSimHas(class, canary)
					sim.SetNode(0)
					out.Probe("over_limit_forgeries_checked", 1)
					if !has {
						bad = append(bad, fmt.Sprintf("hop-limit-ignored: a flush with hops=%d (limit %d) made node%d discard cache class %d", op.Arg(3), maxFlushHops, node, class))
					}
				}
			}
			// let sweepers end
			for j := 0; j <= nn; j++ {
				sim.SetNode(j)
				caches.VerifSimShutdown()
			}
			sim.SetNode(0)
			time.Sleep(61 * time.Second)
		})
		// message-count invariants over the whole run
		budget := map[int]int{}
		for _, pr := range purges {
			budget[pr.node] += len(pr.peers)
		}
		sent := map[int]int{}
		for _, m := range net.msgs {
			if m.forged {
				continue
			}
			sent[m.from]++
			if m.hops != originHopCount {
				bad = append(bad, fmt.Sprintf("rebroadcast-hops: message %d from node%d to node%d carries hops=%d (an origin broadcast carries %d)", m.idx, m.from, m.to, m.hops, originHopCount))
			}
			if m.purgeSeq == 0 {
				bad = append(bad, fmt.Sprintf("rebroadcast: node%d sent a flush (message %d to node%d) although it never purged locally", m.from, m.idx, m.to))
			}
		}
		for j, n := range sent {
			if n > budget[j] {
				bad = append(bad, fmt.Sprintf("too-many-messages: node%d sent %d flush messages; its local purges allow at most %d (sum of active peers at each purge)", j, n, budget[j]))
			}
		}
		out.Probe("messages", len(net.msgs))
		out.Probe("local_purges", len(purges))
	})
	if p != nil {
		out.HarnessError = fmt.Sprint(p)
		return out
	}
	if herr != "" {
		out.HarnessError = herr
		return out
	}
	out.FromSched(res)
	for k, v := range net.fired {
		for i := 0; i < v; i++ {
			out.Fault(k)
		}
	}
	var ms []string
	for _, m := range net.msgs {
		ms = append(ms, fmt.Sprintf("m%d node%d->node%d class %d hops %d %s", m.idx, m.from, m.to, m.cache, m.hops, m.fate))
	}
	out.Nontrivial = len(net.msgs) > 0
	out.Hash = simrun.HashStrings(res.Hash, append(hist, ms...)...)
	if keepLog {
		out.Log = append(out.Log, hist...)
		out.Log = append(out.Log, ms...)
	}
	if out.Violation != "" || out.Inconclusive != "" {
		return out
	}
	sort.Strings(bad)
	for _, b := range bad {
		out.Fail("C29/"+strings.SplitN(b, ":", 2)[0], "%s ; history: %s ; messages: %s", b, strings.Join(hist, " | "), strings.Join(ms, " | "))
	}
	return out
}
