package cluster

// C29 — Cluster cache invalidation is bounded and complete (engine cluster-net).
// In-package harness mapped into internal/server/cluster. DESIGN.md §3 C29, §6.6.
//
// 1..5 simulated server processes in one process. Each process has its own caches state,
// NodeID / ThisMember / systemDB handle and router (with the real FlushCacheHandler behind a
// real route); the scheduler tags every task with its process and swaps the package-level
// state on a switch. All processes share one SQLite membership file, which each of them opens
// and joins through the REAL cluster.Initialize (with a generated cli.Context) and leaves
// through the real cluster.Shutdown. Between the processes is the simulator's transport
// (http.DefaultTransport seam), routing by port: per message it can drop, delay (also beyond
// the sender's 5 s timeout, so the flush is delivered although the sender saw an error),
// duplicate, refuse (nothing listens), or black-hole (partition).
//
// Operations: purge of a cache class on a node (real caches.Purge -> go OnPurge =
// BroadcastCacheFlush); administrative member removal / re-activation (real RemoveMember /
// upsertMember), either before the purges of a phase or concurrently with them; listener down
// / up; CRASH (the process disappears: its volatile state is lost, its membership row stays
// 'active' — what a killed server leaves behind); graceful STOP (real Shutdown marks the row
// removed); START (a new process generation with a new instance id on the same port runs the
// real Initialize; after a crash the dead generation's row is still there, so one port can be
// behind two 'active' rows); partition of the cluster into two halves for a phase; forged
// flush messages with hop counts 0..max+1.
//
// A "peer" in the oracle is a membership ROW that is active and is not the sender's own row.

import (
	"bytes"
	stdsql "database/sql"
	"encoding/json"
	"fmt"
	"io"
	"net/http"
	"net/http/httptest"
	"os"
	"path/filepath"
	"sort"
	"strconv"
	"strings"
	stdsync "sync"
	"testing"
	"time"

	"github.com/tucats/ego/internal/caches"
	"github.com/tucats/ego/internal/cli/cli"
	"github.com/tucats/ego/internal/cli/settings"
	"github.com/tucats/ego/internal/defs"
	"github.com/tucats/ego/internal/router"
	"github.com/tucats/ego/internal/verifsim/sim"
	"github.com/tucats/ego/internal/verifsim/simrun"
	sync "github.com/tucats/ego/internal/verifsim/sync"
)

func TestVerifSim(t *testing.T) { simrun.Main(t, c29Engine{}) }

type c29Engine struct{}

func (c29Engine) Name() string     { return "cluster-net" }
func (c29Engine) Property() string { return "C29" }
func (c29Engine) WarmupRuns() int  { return 2 }

// c29Pool: every predefined cache class and one user-defined class; each run works with three of them.
var c29Pool = []int{caches.DSNCache, caches.AuthCache, caches.UserCache, caches.TokenCache, caches.BlacklistCache, caches.SchemaCache,
	caches.SymbolTableCache, caches.DebugSessionCache, caches.WebAuthnChallengeCache, caches.OAuthCodeCache, caches.OAuthRefreshCache,
	caches.OAuthJWTCache, 37}

// c29ClassesOf returns the three cache classes of a case (knobs class0..2 = indices into the pool;
// absent = the three classes of the first version of this harness).
func c29ClassesOf(c *simrun.Case) []int {
	out := []int{caches.AuthCache, caches.TokenCache, caches.DSNCache}
	for i := range out {
		if k, ok := c.Knobs[fmt.Sprintf("class%d", i)]; ok {
			out[i] = c29Pool[int(k)%len(c29Pool)]
		}
	}
	return out
}

// Ops (first argument = phase): purge [ph, port, class] ; purgeall [ph, port] (caches.PurgeAll: one purge per class the node
// holds; ignored when the node has another purge in the same phase, which would make "the classes it holds" ambiguous) ; remove / join / down / up / crash / stop / start [ph, port] ;
// cremove / cjoin [ph, port] (concurrent with the purges of the phase) ; partition [ph, mask] ;
// forge [ph, port, class, hops]. Faults: drop/delay/dup [message index, seconds].
func (c29Engine) Generate(seed uint64, tier string) *simrun.Case {
	r := sim.NewRand(seed)
	c := &simrun.Case{Prop: "C29", Engine: "cluster-net", Seed: seed, SchedSeed: sim.Mix(seed, 29), Knobs: map[string]int64{}}
	n := 1 + r.Intn(5)
	c.Knobs["nodes"] = int64(n)
	for i, k := range r.Perm(len(c29Pool))[:3] {
		c.Knobs[fmt.Sprintf("class%d", i)] = int64(k)
	}
	c.Knobs["preempt_num"], c.Knobs["preempt_den"] = 1, []int64{1, 2, 5}[r.Intn(3)]
	faulty := r.Chance(2, 3)
	lifecycle := r.Chance(1, 2) // swarm: half of the runs have crash/stop/start and concurrent membership changes
	nph := 2 + r.Intn(6)
	for ph := int64(0); ph < int64(nph); ph++ {
		k := 1 + r.Intn(3)
		for i := 0; i < k; i++ {
			node := int64(1 + r.Intn(n))
			x := r.Intn(100)
			if !lifecycle && x >= 100-24 {
				x = r.Intn(62)
			}
			switch {
			case x < 40:
				c.Ops = append(c.Ops, simrun.Op{K: "purge", A: []int64{ph, node, int64(r.Intn(3))}})
			case x < 46:
				c.Ops = append(c.Ops, simrun.Op{K: "purgeall", A: []int64{ph, node}})
			case x < 51:
				c.Ops = append(c.Ops, simrun.Op{K: "remove", A: []int64{ph, node}})
			case x < 56:
				c.Ops = append(c.Ops, simrun.Op{K: "join", A: []int64{ph, node}})
			case x < 61:
				c.Ops = append(c.Ops, simrun.Op{K: "down", A: []int64{ph, node}})
			case x < 66:
				c.Ops = append(c.Ops, simrun.Op{K: "up", A: []int64{ph, node}})
			case x < 72:
				c.Ops = append(c.Ops, simrun.Op{K: "forge", A: []int64{ph, node, int64(r.Intn(3)), []int64{0, 1, 4, 5, 9}[r.Intn(5)]}})
			case x < 76:
				c.Ops = append(c.Ops, simrun.Op{K: "partition", A: []int64{ph, int64(1 + r.Intn(1<<uint(n)))}})
			case x < 82:
				c.Ops = append(c.Ops, simrun.Op{K: "crash", A: []int64{ph, node}})
			case x < 86:
				c.Ops = append(c.Ops, simrun.Op{K: "stop", A: []int64{ph, node}})
			case x < 93:
				c.Ops = append(c.Ops, simrun.Op{K: "start", A: []int64{ph, node}})
			case x < 97:
				c.Ops = append(c.Ops, simrun.Op{K: "cremove", A: []int64{ph, node}})
			default:
				c.Ops = append(c.Ops, simrun.Op{K: "cjoin", A: []int64{ph, node}})
			}
		}
	}
	if faulty {
		nf := 1 + r.Intn(5)
		for i := 0; i < nf; i++ {
			kind := []string{"drop", "delay", "delay", "dup"}[r.Intn(4)]
			c.Faults = append(c.Faults, simrun.Op{K: kind, A: []int64{int64(r.Intn(12)), []int64{1, 3, 6, 20}[r.Intn(4)]}})
		}
	}
	// swarm: in two thirds of the runs every mutex release is followed by a scheduling point (a goroutine can lose
	// the processor right after an Unlock, before its next statement)
	c.Knobs["unlock_yield"] = []int64{0, 1, 1}[r.Intn(3)]
	return c
}

// c29Node is one server process generation (index in c29Net.nodes = its simulator node number).
type c29Node struct {
	id     int // simulator node number
	port   int
	gen    int
	nodeID string
	member defs.ClusterMember
	db     *stdsql.DB
	c      *caches.VerifSimNode
	rt     *router.Router
	down   bool // listener not reachable (the process lives)
	dead   bool // the process is gone (crashed or stopped)
}

type c29Msg struct {
	idx      int
	from, to int // simulator node numbers (to = the live process behind the port, 0 if none)
	toPort   int
	sender   string
	cache    int
	hops     int
	fate     string // delivered | dropped | refused | partitioned | delivered-twice
	forged   bool
	purgeSeq int // >0 if the sender has purged locally at some time (its latest purge)
	phase    int
	sentAt   time.Duration // since the start of the phase's concurrent part
	doneAt   time.Duration // first delivery completed
	faulted  bool
}

type c29Net struct {
	mu        stdsync.Mutex
	nodes     []*c29Node
	live      map[int]*c29Node // port -> live process
	faults    map[int]simrun.Op
	msgs      []*c29Msg
	fired     map[string]int
	lastPurge map[int]int // node -> sequence number of its latest local purge (0 = never purged)
	phase     int
	phaseT0   time.Time
	side      map[int]int // port -> partition side during this phase (absent = no partition)
}

func (n *c29Net) RoundTrip(req *http.Request) (*http.Response, error) {
	sim.Yield("net")
	body, _ := io.ReadAll(req.Body)
	var fr defs.ClusterFlushRequest
	json.Unmarshal(body, &fr)
	port, _ := strconv.Atoi(req.URL.Port())
	n.mu.Lock()
	m := &c29Msg{idx: len(n.msgs), toPort: port, sender: fr.SenderID, cache: fr.CacheID, hops: fr.Hops, forged: req.Header.Get("X-Forged") != ""}
	for _, nd := range n.nodes {
		if nd.nodeID == fr.SenderID && nd.nodeID != "" {
			m.from = nd.id
		}
	}
	m.purgeSeq = n.lastPurge[m.from]
	m.phase = n.phase
	m.sentAt = time.Since(n.phaseT0)
	n.msgs = append(n.msgs, m)
	f, hasFault := n.faults[m.idx]
	target := n.live[port]
	cut := false
	if m.from != 0 && len(n.side) > 0 && n.side[n.nodes[m.from].port] != n.side[port] {
		cut = true
	}
	n.mu.Unlock()
	if cut {
		// a partition: the packets vanish, the sender's own timeout ends the wait
		m.fate, m.faulted = "partitioned", true
		n.mu.Lock()
		n.fired["partition"]++
		n.mu.Unlock()
		<-req.Context().Done()
		sim.Yield("net-resume")
		return nil, req.Context().Err()
	}
	if target == nil || target.down || target.dead {
		m.fate = "refused"
		n.mu.Lock()
		n.fired["node-down-refused"]++
		n.mu.Unlock()
		return nil, fmt.Errorf("dial tcp %s: connection refused (simulated)", req.URL.Host)
	}
	m.to = target.id
	latency := 20 * time.Millisecond
	copies := 1
	if hasFault && !m.forged {
		n.mu.Lock()
		n.fired[f.K]++
		n.mu.Unlock()
		m.faulted = true
		switch f.K {
		case "drop":
			m.fate = "dropped"
			select {
			case <-time.After(time.Duration(f.Arg(1)) * time.Second):
			case <-req.Context().Done():
			}
			sim.Yield("net-resume")
			return nil, fmt.Errorf("read tcp: connection reset (simulated loss)")
		case "delay":
			latency = time.Duration(f.Arg(1)) * time.Second
		case "dup":
			copies = 2
		}
	}
	resp := make(chan *http.Response, 2)
	for k := 0; k < copies; k++ {
		extra := time.Duration(k) * 2 * time.Second
		sim.Go(func() {
			sim.SetNode(target.id)
			time.Sleep(latency + extra)
			sim.Yield("net-deliver") // (after real blocking a task must pass the scheduler again so that its node's state is switched in)
			if target.dead {
				return // the process died while the message was on its way
			}
			r2 := httptest.NewRequest(req.Method, req.URL.Path, bytes.NewReader(body))
			r2.Header = req.Header.Clone()
			w := httptest.NewRecorder()
			target.rt.ServeHTTP(w, r2)
			n.mu.Lock()
			if m.fate == "" {
				m.fate = "delivered"
				m.doneAt = time.Since(n.phaseT0)
			} else if m.fate == "delivered" {
				m.fate = "delivered-twice"
			}
			n.mu.Unlock()
			resp <- w.Result()
		})
	}
	select {
	case r := <-resp:
		sim.Yield("net-resume")
		return r, nil
	case <-req.Context().Done():
		sim.Yield("net-resume")
		n.mu.Lock()
		n.fired["delivered-after-sender-timeout"]++
		n.mu.Unlock()
		return nil, req.Context().Err()
	}
}

// c29Row is the harness's model of one membership row.
type c29Row struct {
	nodeID string
	port   int
	active bool
}

func (c29Engine) Execute(t *testing.T, c *simrun.Case, keepLog bool) *simrun.Outcome {
	out := &simrun.Outcome{}
	dir, err := os.MkdirTemp(os.Getenv("TMPDIR"), "c29-")
	if err != nil {
		out.HarnessError = err.Error()
		return out
	}
	defer os.RemoveAll(dir)
	nn := int(c.Knob("nodes", 1))
	c29Classes := c29ClassesOf(c)
	net := &c29Net{faults: map[int]simrun.Op{}, fired: map[string]int{}, lastPurge: map[int]int{}, live: map[int]*c29Node{}, side: map[int]int{}}
	for _, f := range c.Faults {
		net.faults[int(f.Arg(0))] = f
	}
	saved := http.DefaultTransport
	savedInstance := defs.InstanceID
	defer func() {
		http.DefaultTransport = saved
		caches.OnPurge = nil
		ClusterName, NodeID, systemDB, ThisMember = "", "", nil, defs.ClusterMember{}
		defs.InstanceID = savedInstance
	}()
	var res sim.Result
	var herr string
	var hist []string
	var bad []string
	dbPath := filepath.Join(dir, "system.db")
	var handles []*stdsql.DB
	p := simrun.Bubble(t, func() {
		caches.VerifSimReset()
		settings.SetDefault(defs.ServerTokenKeySetting, "verifsim-cluster-token-key")
		settings.SetDefault(defs.InsecureServerSetting, "true")
		ClusterName, NodeID, systemDB, ThisMember = "", "", nil, defs.ClusterMember{}
		// the harness's own handle on the membership file (administrative operations, model cross-check)
		adm, err := stdsql.Open("sqlite", dbPath)
		if err != nil {
			herr = err.Error()
			return
		}
		handles = append(handles, adm)
		defer func() {
			for _, h := range handles {
				h.Close()
			}
		}()
		// node 0 = the harness itself (no server)
		net.nodes = []*c29Node{{id: 0, nodeID: "", c: caches.VerifSimNewNode()}}
		rows := []*c29Row{} // model of the membership table, in creation order
		rowOf := func(nodeID string) *c29Row {
			for _, r := range rows {
				if r.nodeID == nodeID {
					return r
				}
			}
			return nil
		}
		http.DefaultTransport = net
		opt := c.SchedOptions(keepLog)
		opt.OnSwitch = func(from, to int) {
			if from < 0 || from >= len(net.nodes) || to < 0 || to >= len(net.nodes) {
				return
			}
			f, tn := net.nodes[from], net.nodes[to]
			caches.VerifSimSwitch(f.c, tn.c)
			f.nodeID, f.member, f.db = NodeID, ThisMember, systemDB
			NodeID, ThisMember, systemDB = tn.nodeID, tn.member, tn.db
		}
		gens := map[int]int{}
		// start runs the REAL join code for a new process generation on the port; called on the root task.
		start := func(port int) string {
			gens[port]++
			nd := &c29Node{id: len(net.nodes), port: port, gen: gens[port], c: caches.VerifSimNewNode()}
			net.nodes = append(net.nodes, nd)
			sim.SetNode(nd.id)
			defs.InstanceID = fmt.Sprintf("node-%d-g%d", port-4000, nd.gen)
			ctx := &cli.Context{Grammar: []cli.Option{
				{LongName: "cluster", OptionType: cli.StringType, Found: true, Value: "vs"},
				{LongName: "users", OptionType: cli.StringType, Found: true, Value: "sqlite://" + dbPath},
				{LongName: "port", OptionType: cli.IntType, Found: true, Value: port},
				{LongName: "not-secure", OptionType: cli.BooleanType, Found: true, Value: true},
			}}
			// (time moves between process starts, as it does in reality; joined_at orders the peer list)
			time.Sleep(time.Second)
			sim.Yield("start") // (after real blocking a task passes the scheduler again so that its node's state is switched in)
			if err := Initialize(ctx); err != nil {
				herr = "cluster.Initialize: " + err.Error()
			}
			if systemDB != nil {
				handles = append(handles, systemDB)
			}
			nd.nodeID, nd.member, nd.db = NodeID, ThisMember, systemDB
			nd.rt = router.NewRouter(defs.InstanceID)
			nd.rt.New("/services/cluster/flush", FlushCacheHandler, http.MethodPost)
			me := defs.InstanceID
			sim.SetNode(0)
			net.mu.Lock()
			net.live[port] = nd
			net.mu.Unlock()
			rows = append(rows, &c29Row{nodeID: me, port: port, active: true})
			return me
		}
		purgeSeq := 0
		type purgeRec struct {
			seq, node, class int
			canary           string
		}
		var purges []purgeRec
		res = sim.Run(opt, func() {
			for j := 1; j <= nn; j++ {
				start(4000 + j)
			}
			if herr != "" {
				return
			}
			maxPh := int64(0)
			for _, op := range c.Ops {
				if op.Arg(0) > maxPh {
					maxPh = op.Arg(0)
				}
			}
			portOf := func(op simrun.Op) int {
				node := int(op.Arg(1))
				if node < 1 || node > nn {
					node = 1
				}
				return 4000 + node
			}
			for ph := int64(0); ph <= maxPh; ph++ {
				net.mu.Lock()
				net.phase = int(ph)
				net.side = map[int]int{}
				net.mu.Unlock()
				// 1. lifecycle, membership and availability changes that precede the purges of this phase
				for _, op := range c.Ops {
					if op.Arg(0) != ph {
						continue
					}
					port := portOf(op)
					nd := net.live[port]
					switch op.K {
					case "remove":
						if nd != nil {
							RemoveMember(adm, nd.nodeID)
							rowOf(nd.nodeID).active = false
							hist = append(hist, fmt.Sprintf("remove %s", nd.nodeID))
						}
					case "join":
						if nd != nil {
							upsertMember(adm, nd.member)
							rowOf(nd.nodeID).active = true
							hist = append(hist, fmt.Sprintf("join %s", nd.nodeID))
						}
					case "down":
						if nd != nil {
							nd.down = true
							hist = append(hist, fmt.Sprintf("down %s", nd.nodeID))
						}
					case "up":
						if nd != nil {
							nd.down = false
							hist = append(hist, fmt.Sprintf("up %s", nd.nodeID))
						}
					case "crash", "stop":
						if nd == nil {
							continue
						}
						sim.SetNode(nd.id)
						if op.K == "stop" {
							Shutdown() // the real graceful leave: marks this node's row removed
							rowOf(nd.nodeID).active = false
						}
						caches.VerifSimShutdown() // (lets the dead process's sweeper goroutines end; its state is never looked at again)
						sim.SetNode(0)
						nd.dead = true
						net.mu.Lock()
						delete(net.live, port)
						net.mu.Unlock()
						hist = append(hist, fmt.Sprintf("%s %s", op.K, nd.nodeID))
						out.Probe("lifecycle_"+op.K, 1)
					case "start":
						if nd == nil {
							me := start(port)
							hist = append(hist, fmt.Sprintf("start %s", me))
							out.Probe("lifecycle_start", 1)
						}
					case "partition":
						mask := op.Arg(1)
						net.mu.Lock()
						for j := 1; j <= nn; j++ {
							net.side[4000+j] = int(mask>>uint(j-1)) & 1
						}
						net.mu.Unlock()
						hist = append(hist, fmt.Sprintf("partition mask %b", mask))
					}
				}
				if herr != "" {
					return
				}
				// canaries: every live process gets a fresh entry in every class before the purges
				canary := fmt.Sprintf("canary-%d", ph)
				for _, nd := range net.nodes[1:] {
					if nd.dead {
						continue
					}
					sim.SetNode(nd.id)
					for _, cl := range c29Classes {
						caches.Add(cl, canary, int(ph))
					}
				}
				sim.SetNode(0)
				// the model's rows at the start of the concurrent part, and the rows touched during it
				activeAtStart := map[string]bool{}
				for _, r := range rows {
					activeAtStart[r.nodeID] = r.active
				}
				touched := map[string]bool{}
				conflicting := map[string]bool{}
				net.mu.Lock()
				net.phaseT0 = time.Now()
				net.mu.Unlock()
				// 2. purges, forged messages and concurrent membership changes
				var wg sync.WaitGroup
				npurge := map[[2]int]int{} // (node, class) -> purges in this phase
				for _, op := range c.Ops {
					if op.Arg(0) != ph {
						continue
					}
					op := op
					port := portOf(op)
					nd := net.live[port]
					switch op.K {
					case "purge":
						if nd == nil {
							continue
						}
						class := c29Classes[int(op.Arg(2))%3]
						purgeSeq++
						pr := purgeRec{seq: purgeSeq, node: nd.id, class: class, canary: canary}
						purges = append(purges, pr)
						npurge[[2]int{nd.id, class}]++
						hist = append(hist, fmt.Sprintf("purge#%d class %d on %s", pr.seq, class, nd.nodeID))
						wg.Add(1)
						sim.Go(func() {
							defer wg.Done()
							sim.SetNode(pr.node)
							net.mu.Lock()
							net.lastPurge[pr.node] = pr.seq
							net.mu.Unlock()
							caches.Purge(class)
						})
					case "purgeall":
						if nd == nil {
							continue
						}
						npurgeOps := 0
						for _, o2 := range c.Ops {
							if o2.Arg(0) == ph && (o2.K == "purge" || o2.K == "purgeall") && portOf(o2) == port {
								npurgeOps++
							}
						}
						if npurgeOps != 1 {
							continue
						}
						node := nd.id
						for _, class := range c29Classes {
							purgeSeq++
							purges = append(purges, purgeRec{seq: purgeSeq, node: node, class: class, canary: canary})
							npurge[[2]int{node, class}]++
						}
						seq := purgeSeq
						hist = append(hist, fmt.Sprintf("purge-all on %s", nd.nodeID))
						out.Probe("purge_all", 1)
						wg.Add(1)
						sim.Go(func() {
							defer wg.Done()
							sim.SetNode(node)
							net.mu.Lock()
							net.lastPurge[node] = seq
							net.mu.Unlock()
							caches.PurgeAll()
						})
					case "cremove", "cjoin":
						if nd == nil {
							continue
						}
						if touched[nd.nodeID] && rowOf(nd.nodeID).active != (op.K == "cjoin") {
							conflicting[nd.nodeID] = true // removed and re-activated concurrently: whichever lands last wins
						}
						touched[nd.nodeID] = true
						rowOf(nd.nodeID).active = op.K == "cjoin"
						member := nd.member
						hist = append(hist, fmt.Sprintf("%s %s (concurrent)", op.K, nd.nodeID))
						out.Probe("concurrent_membership_change", 1)
						wg.Add(1)
						sim.Go(func() {
							defer wg.Done()
							if op.K == "cremove" {
								RemoveMember(adm, member.NodeID)
							} else {
								upsertMember(adm, member)
							}
						})
					case "forge":
						class := c29Classes[int(op.Arg(2))%3]
						hops := int(op.Arg(3))
						hist = append(hist, fmt.Sprintf("forged flush class %d hops %d to port %d", class, hops, port))
						wg.Add(1)
						sim.Go(func() {
							defer wg.Done()
							body, _ := json.Marshal(defs.ClusterFlushRequest{CacheID: class, SenderID: "forger", Hops: hops})
							req, _ := http.NewRequest(http.MethodPost, fmt.Sprintf("http://host.local:%d/services/cluster/flush", port), bytes.NewReader(body))
							req.Header.Set("Authorization", ClusterAuthHeader())
							req.Header.Set("X-Forged", "1")
							cl := &http.Client{Timeout: 5 * time.Second}
							resp, err := cl.Do(req)
							if err == nil {
								resp.Body.Close()
							}
						})
					}
				}
				wg.Wait()
				// quiescence: all messages (also the delayed ones) are delivered well within this time
				time.Sleep(60 * time.Second)
				// 3. judge the phase
				sim.SetNode(0)
				net.mu.Lock()
				msgs := append([]*c29Msg{}, net.msgs...)
				anyFault := false
				for _, m := range msgs {
					if m.phase == int(ph) && (m.faulted || m.fate == "refused") {
						anyFault = true
					}
				}
				net.mu.Unlock()
				var gkeys [][2]int
				for g := range npurge {
					gkeys = append(gkeys, g)
				}
				sort.Slice(gkeys, func(a, b int) bool { return gkeys[a][0]*100+gkeys[a][1] < gkeys[b][0]*100+gkeys[b][1] })
				nrows := 0
				for _, r := range rows {
					if activeAtStart[r.nodeID] || touched[r.nodeID] {
						nrows++
					}
				}
				for _, g := range gkeys {
					k := npurge[g]
					sender := net.nodes[g[0]]
					// expected messages per destination port: one per purge per active row that is not the sender's own
					minTo, maxTo := map[int]int{}, map[int]int{}
					for _, r := range rows {
						if r.nodeID == sender.nodeID {
							continue
						}
						switch {
						case touched[r.nodeID]: // changed while the purges ran: may or may not have been seen
							maxTo[r.port] += k
						case activeAtStart[r.nodeID]:
							minTo[r.port] += k
							maxTo[r.port] += k
						}
					}
					sentTo, deliveredTo := map[int]int{}, map[int]int{}
					for _, m := range msgs {
						if !m.forged && m.phase == int(ph) && m.from == g[0] && m.cache == g[1] {
							sentTo[m.toPort]++
							if strings.HasPrefix(m.fate, "delivered") {
								deliveredTo[m.toPort]++
							}
							// bounded progress of the broadcast itself: peers are notified one after the other, each
							// attempt ends after the 5 s client timeout at the latest
							if lim := time.Duration(nrows)*5*time.Second + time.Second; m.sentAt > lim {
								bad = append(bad, fmt.Sprintf("broadcast-too-slow: message %d (class %d from %s to port %d) left the sender %v after the purge; with %d membership rows every peer must have been tried within %v", m.idx, m.cache, sender.nodeID, m.toPort, m.sentAt, nrows, lim))
							}
						}
					}
					for j := 1; j <= nn; j++ {
						port := 4000 + j
						switch {
						case sentTo[port] < minTo[port]:
							bad = append(bad, fmt.Sprintf("peer-not-notified: %d purge(s) of class %d on %s in phase %d, but only %d flush message(s) were sent to port %d, which is behind %d active membership row(s) other than the sender's", k, g[1], sender.nodeID, ph, sentTo[port], port, minTo[port]/k))
						case sentTo[port] > maxTo[port]:
							bad = append(bad, fmt.Sprintf("too-many-messages: %d purge(s) of class %d on %s in phase %d caused %d flush messages to port %d (at most %d active peer rows there)", k, g[1], sender.nodeID, ph, sentTo[port], port, maxTo[port]/k))
						}
						if deliveredTo[port] > 0 {
							out.Probe("flushes_delivered_and_checked", 1)
							if tn := net.live[port]; tn != nil {
								sim.SetNode(tn.id)
								has := caches.VerifSimHas(g[1], canary)
								sim.SetNode(0)
								if has {
									bad = append(bad, fmt.Sprintf("peer-kept-cache: purge of class %d on %s: a flush was delivered to the peer on port %d but the entry cached there before is still present", g[1], sender.nodeID, port))
								}
							}
						}
						// bounded liveness once faults stop: in a phase without any fault, refusal or partition every
						// notification is delivered within a second (20 ms per hop, peers in sequence)
						if !anyFault && len(touched) == 0 && minTo[port] > 0 {
							out.Probe("fault_free_phase_deliveries_checked", 1)
							for _, m := range msgs {
								if !m.forged && m.phase == int(ph) && m.from == g[0] && m.cache == g[1] && m.toPort == port {
									if m.fate != "delivered" || m.doneAt > time.Second {
										bad = append(bad, fmt.Sprintf("no-progress-without-faults: phase %d has no message fault, yet message %d (class %d, %s -> port %d) has fate %q after %v", ph, m.idx, m.cache, sender.nodeID, port, m.fate, m.doneAt))
									}
								}
							}
						}
					}
				}
				// forged flushes above the hop limit must leave the cache alone
				for _, op := range c.Ops {
					if op.Arg(0) != ph || op.K != "forge" {
						continue
					}
					port := portOf(op)
					class := c29Classes[int(op.Arg(2))%3]
					if op.Arg(3) <= maxFlushHops {
						continue
					}
					tn := net.live[port]
					if tn == nil || tn.down {
						continue
					}
					// (only meaningful if nothing else legitimately flushed that class on that node in this phase)
					legit := false
					for _, m := range msgs {
						if m.phase == int(ph) && m.toPort == port && m.cache == class && !(m.forged && m.hops > maxFlushHops) && strings.HasPrefix(m.fate, "delivered") {
							legit = true
						}
					}
					if npurge[[2]int{tn.id, class}] > 0 || legit {
						continue
					}
					sim.SetNode(tn.id)
					has := caches.VerifSimHas(class, canary)
					sim.SetNode(0)
					out.Probe("over_limit_forgeries_checked", 1)
					if !has {
						bad = append(bad, fmt.Sprintf("hop-limit-ignored: a flush with hops=%d (limit %d) made the node on port %d discard cache class %d", op.Arg(3), maxFlushHops, port, class))
					}
				}
				// the membership table must be what the lifecycle and membership operations so far amount to
				if dbrows, err := ListMembers(adm, "vs"); err == nil {
					got := map[string]string{}
					for _, m := range dbrows {
						got[m.NodeID] = fmt.Sprintf("%s port %d", m.State, m.Port)
						if conflicting[m.NodeID] {
							rowOf(m.NodeID).active = m.State == ActiveState
						}
					}
					for _, r := range rows {
						want := "removed"
						if r.active {
							want = ActiveState
						}
						want = fmt.Sprintf("%s port %d", want, r.port)
						if got[r.nodeID] != want {
							bad = append(bad, fmt.Sprintf("membership-wrong: after phase %d the membership row of %s is %q, the operations so far make it %q", ph, r.nodeID, got[r.nodeID], want))
						}
					}
					if len(dbrows) != len(rows) {
						bad = append(bad, fmt.Sprintf("membership-wrong: %d rows in the membership table, %d processes ever joined", len(dbrows), len(rows)))
					}
				}
			}
			// let sweepers end
			for _, nd := range net.nodes {
				sim.SetNode(nd.id)
				caches.VerifSimShutdown()
			}
			sim.SetNode(0)
			time.Sleep(61 * time.Second)
		})
		// message-count invariants over the whole run
		for _, m := range net.msgs {
			if m.forged {
				continue
			}
			if m.hops != originHopCount {
				bad = append(bad, fmt.Sprintf("rebroadcast-hops: message %d from node%d to port %d carries hops=%d (an origin broadcast carries %d)", m.idx, m.from, m.toPort, m.hops, originHopCount))
			}
			if m.purgeSeq == 0 {
				bad = append(bad, fmt.Sprintf("rebroadcast: %q sent a flush (message %d to port %d) although it never purged locally", m.sender, m.idx, m.toPort))
			}
		}
		out.Probe("messages", len(net.msgs))
		out.Probe("local_purges", len(purges))
	})
	if p != nil {
		out.HarnessError = fmt.Sprint(p)
		return out
	}
	if herr != "" {
		out.HarnessError = herr
		return out
	}
	out.FromSched(res)
	for k, v := range net.fired {
		for i := 0; i < v; i++ {
			out.Fault(k)
		}
	}
	var ms []string
	for _, m := range net.msgs {
		ms = append(ms, fmt.Sprintf("m%d %s->port %d class %d hops %d %s", m.idx, m.sender, m.toPort, m.cache, m.hops, m.fate))
	}
	out.Nontrivial = len(net.msgs) > 0
	out.Hash = simrun.HashStrings(res.Hash, append(hist, ms...)...)
	if keepLog {
		out.Log = append(out.Log, hist...)
		out.Log = append(out.Log, ms...)
	}
	if out.Violation != "" || out.Inconclusive != "" {
		return out
	}
	sort.Strings(bad)
	for _, b := range bad {
		out.Fail("C29/"+strings.SplitN(b, ":", 2)[0], "%s ; history: %s ; messages: %s", b, strings.Join(hist, " | "), strings.Join(ms, " | "))
	}
	return out
}
