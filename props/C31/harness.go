package auth

// C31 — User stores agree and persist (engine users-hist).
// In-package harness mapped into internal/server/auth. DESIGN.md §3 C31.
//
// The real file-backed and database-backed user stores (the latter with the real AuthCache
// on the fake clock) are driven side by side with the same seeded history of writes,
// deletes, reads, listings, permission changes (through the real setPermission /
// GetPermission(s), routed to each store in turn through the AuthService seam), flushes,
// close-and-reopen, time advances and cache purges. After every operation both stores must
// give equal answers (and equal error / no error), equal to a plain map model; and the
// answers must be unchanged after flush + close + reopen. A "cwrite" operation performs a write
// from a second client task while the first is inside Flush (the scheduler decides where in
// Flush the write lands): a write acknowledged there must still survive the next
// flush + close + reopen.

import (
	"fmt"
	"os"
	"path/filepath"
	"sort"
	"strings"
	"testing"
	"time"

	"github.com/google/uuid"

	"github.com/tucats/ego/internal/caches"
	"github.com/tucats/ego/internal/cli/settings"
	"github.com/tucats/ego/internal/defs"
	"github.com/tucats/ego/internal/verifsim/sim"
	"github.com/tucats/ego/internal/verifsim/simrun"
	"github.com/tucats/ego/internal/verifsim/sync"
)

func TestVerifSim(t *testing.T) { simrun.Main(t, c31Engine{}) }

type c31Engine struct{}

func (c31Engine) Name() string     { return "users-hist" }
func (c31Engine) Property() string { return "C31" }
func (c31Engine) WarmupRuns() int  { return 2 }

// (the default account "admin" is never touched: both stores re-create a missing default account when they are opened, each by its own rule)
var c31Names = []string{"alice", "bob", "Alice", "carol", "dave"}
var c31Perms = []string{"ego.logon", "ego.root", "ego.table.read", "custom"}
var c31IDs = []uuid.UUID{uuid.MustParse("00000000-0000-0000-0000-0000000000a1"), uuid.MustParse("00000000-0000-0000-0000-0000000000b2"), uuid.MustParse("00000000-0000-0000-0000-0000000000c3")}

// Ops: write [name, pwVariant, permMask(0..15, 16 = nil list), id] ; delete [name] ; read [name] ; list [masked] ;
// cwrite [name, pwVariant, permMask, id] (a write concurrent with a flush) ; setperm [name, perm, on] ; getperm [name, perm] ; getperms [name] ; flush ; reopen ; advance [s] ; purge
func (c31Engine) Generate(seed uint64, tier string) *simrun.Case {
	r := sim.NewRand(seed)
	c := &simrun.Case{Prop: "C31", Engine: "users-hist", Seed: seed, SchedSeed: sim.Mix(seed, 31), Knobs: map[string]int64{}}
	n := 10 + r.Intn(30)
	for i := 0; i < n; i++ {
		name := int64(r.Intn(len(c31Names)))
		switch x := r.Intn(100); {
		case x < 22:
			mask := int64(r.Intn(16))
			if r.Chance(1, 6) {
				mask = 16
			}
			c.Ops = append(c.Ops, simrun.Op{K: "write", A: []int64{name, int64(r.Intn(3)), mask, int64(r.Intn(len(c31IDs)))}})
			if r.Chance(1, 4) {
				c.Ops[len(c.Ops)-1].K = "cwrite"
				if r.Chance(1, 2) {
					c.Ops = append(c.Ops, simrun.Op{K: "reopen"})
				}
			}
		case x < 30:
			c.Ops = append(c.Ops, simrun.Op{K: "delete", A: []int64{name}})
		case x < 48:
			c.Ops = append(c.Ops, simrun.Op{K: "read", A: []int64{name}})
		case x < 56:
			c.Ops = append(c.Ops, simrun.Op{K: "list", A: []int64{int64(r.Intn(2))}})
		case x < 70:
			c.Ops = append(c.Ops, simrun.Op{K: "setperm", A: []int64{name, int64(r.Intn(len(c31Perms))), int64(r.Intn(2))}})
		case x < 76:
			c.Ops = append(c.Ops, simrun.Op{K: "getperm", A: []int64{name, int64(r.Intn(len(c31Perms)))}})
		case x < 80:
			c.Ops = append(c.Ops, simrun.Op{K: "getperms", A: []int64{name}})
		case x < 85:
			c.Ops = append(c.Ops, simrun.Op{K: "flush"})
		case x < 91:
			c.Ops = append(c.Ops, simrun.Op{K: "reopen"})
		case x < 96:
			c.Ops = append(c.Ops, simrun.Op{K: "advance", A: []int64{[]int64{1, 30, 59, 61, 125, 400}[r.Intn(6)]}})
		default:
			c.Ops = append(c.Ops, simrun.Op{K: "purge"})
		}
	}
	// swarm: in two thirds of the runs every mutex release is followed by a scheduling point (a goroutine can lose
	// the processor right after an Unlock, before its next statement)
	c.Knobs["unlock_yield"] = []int64{0, 1, 1}[r.Intn(3)]
	return c
}

func c31UserString(u defs.User, err error) string {
	if err != nil {
		return "error"
	}
	perms := "nil"
	if u.Permissions != nil {
		perms = fmt.Sprintf("%q", u.Permissions)
	}
	return fmt.Sprintf("{%s %s pw=%q perms=%s}", u.Name, u.ID, u.Password, perms)
}

func c31ListString(m map[string]defs.User, masked bool) string {
	var names []string
	for k := range m {
		names = append(names, k)
	}
	sort.Strings(names)
	var parts []string
	for _, k := range names {
		u := m[k]
		if masked {
			// only "is redacted" is compared (the two stores use different placeholders)
			if u.Password != "" && strings.Trim(u.Password, "*") == "" {
				u.Password = "<redacted>"
			}
		}
		parts = append(parts, k+"="+c31UserString(u, nil))
	}
	return strings.Join(parts, " ")
}

func (c31Engine) Execute(t *testing.T, c *simrun.Case, keepLog bool) *simrun.Outcome {
	out := &simrun.Outcome{}
	dir, err := os.MkdirTemp(os.Getenv("TMPDIR"), "c31-")
	if err != nil {
		out.HarnessError = err.Error()
		return out
	}
	defer os.RemoveAll(dir)
	var res sim.Result
	var hist []string
	var herr string
	p := simrun.Bubble(t, func() {
		caches.VerifSimReset()
		settings.SetDefault(defs.LogonUserdataKeySetting, "")
		filePath := filepath.Join(dir, "users.json")
		dbConn := "sqlite3://" + filepath.Join(dir, "users.db")
		var file, db userIOService
		open := func() bool {
			var e1, e2 error
			file, e1 = NewFileService(filePath, "admin", "adminpw")
			db, e2 = NewDatabaseService(dbConn, "admin", "adminpw")
			if e1 != nil || e2 != nil {
				herr = fmt.Sprintf("open: file=%v db=%v", e1, e2)
				return false
			}
			return true
		}
		res = sim.Run(c.SchedOptions(keepLog), func() {
			if !open() {
				return
			}
			// the default admin account gets a random id and a random salt in each store: align them
			adm := defs.User{Name: "admin", ID: c31IDs[0], Password: "admin-hash", Permissions: []string{defs.RootPermission, defs.LogonPermission}}
			file.WriteUser(0, adm)
			db.WriteUser(0, adm)
			model := map[string]defs.User{"admin": adm}
			both := func(i int, op simrun.Op, what string, f func(s userIOService) string, want string) {
				AuthService = file
				a := f(file)
				AuthService = db
				b := f(db)
				hist = append(hist, fmt.Sprintf("%s -> %s", what, a))
				switch {
				case a != b:
					out.Fail("C31/stores-disagree", "op %d (%s) %s: file store answers %s, database store answers %s ; history: %s", i, op, what, a, b, strings.Join(hist, " | "))
				case want != "" && a != want:
					out.Fail("C31/model-disagrees", "op %d (%s) %s: both stores answer %s, a plain map answers %s ; history: %s", i, op, what, a, want, strings.Join(hist, " | "))
				}
			}
			snapshot := func(s userIOService) string {
				return strings.ReplaceAll(c31ListString(s.ListUsers(false), false), "perms=[]", "perms=nil")
			}
			for i, op := range c.Ops {
				if out.Violation != "" {
					break
				}
				name := c31Names[int(op.Arg(0))%len(c31Names)]
				switch op.K {
				case "write", "cwrite":
					u := defs.User{Name: name, ID: c31IDs[int(op.Arg(3))%len(c31IDs)], Password: []string{"$2a$04$abcdefghijklmnopqrstuv", "plainhash0123", ""}[op.Arg(1)%3]}
					if op.Arg(2) < 16 {
						u.Permissions = []string{}
						for b, pn := range c31Perms {
							if op.Arg(2)&(1<<uint(b)) != 0 {
								u.Permissions = append(u.Permissions, pn)
							}
						}
					}
					if op.K == "cwrite" {
						// client 2 writes while client 1 flushes; each store in turn (AuthService is not involved)
						for _, s := range []userIOService{file, db} {
							s := s
							var wg sync.WaitGroup
							var ok1, ok2 bool
							wg.Add(2)
							sim.Go(func() { defer wg.Done(); ok1 = s.Flush() == nil })
							sim.Go(func() {
								defer wg.Done()
								cp := u
								cp.Permissions = append([]string(nil), u.Permissions...)
								if u.Permissions != nil && cp.Permissions == nil {
									cp.Permissions = []string{}
								}
								ok2 = s.WriteUser(2, cp) == nil
							})
							wg.Wait()
							if !ok1 || !ok2 {
								out.Fail("C31/model-disagrees", "op %d (%s): flush ok=%v, concurrent write ok=%v", i, op, ok1, ok2)
							}
						}
						hist = append(hist, "flush || write "+c31UserString(u, nil))
						out.Probe("writes_concurrent_with_a_flush", 1)
						model[name] = u
						break
					}
					both(i, op, "write "+c31UserString(u, nil), func(s userIOService) string {
						cp := u
						cp.Permissions = append([]string(nil), u.Permissions...)
						if u.Permissions != nil && cp.Permissions == nil {
							cp.Permissions = []string{}
						}
						return fmt.Sprint(s.WriteUser(1, cp) == nil)
					}, "true")
					model[name] = u
				case "delete":
					both(i, op, "delete "+name, func(s userIOService) string { return fmt.Sprint(s.DeleteUser(1, name) == nil) }, "true")
					delete(model, name)
				case "read":
					want := "error"
					if m, ok := model[name]; ok {
						want = c31UserString(m, nil)
					}
					// a list that was written empty may come back nil or empty: not distinguished
					norm := func(s string) string { return strings.ReplaceAll(s, "perms=[]", "perms=nil") }
					both(i, op, "read "+name, func(s userIOService) string { u, err := s.ReadUser(1, name, true); return norm(c31UserString(u, err)) }, norm(want))
				case "list":
					masked := op.Arg(0) == 1
					both(i, op, fmt.Sprintf("list masked=%v", masked), func(s userIOService) string {
						return strings.ReplaceAll(c31ListString(s.ListUsers(masked), masked), "perms=[]", "perms=nil")
					}, "")
				case "setperm":
					perm := c31Perms[int(op.Arg(1))%len(c31Perms)]
					on := op.Arg(2) == 1
					both(i, op, fmt.Sprintf("setperm %s %s %v", name, perm, on), func(s userIOService) string { return fmt.Sprint(setPermission(1, name, perm, on) == nil) }, "")
					// the model follows the stores here (they must agree with each other); what the list looks like is checked by the next reads
					if m, ok := model[name]; ok {
						AuthService = file
						u, _ := file.ReadUser(1, name, true)
						m.Permissions = append([]string(nil), u.Permissions...)
						model[name] = m
					}
				case "getperm":
					perm := c31Perms[int(op.Arg(1))%len(c31Perms)]
					want := "false"
					if m, ok := model[name]; ok {
						for _, pn := range m.Permissions {
							if strings.EqualFold(pn, perm) {
								want = "true"
							}
						}
					}
					both(i, op, fmt.Sprintf("getperm %s %s", name, perm), func(s userIOService) string { return fmt.Sprint(GetPermission(1, name, perm)) }, want)
				case "getperms":
					both(i, op, "getperms "+name, func(s userIOService) string {
						return strings.ReplaceAll(fmt.Sprintf("perms=%q", GetPermissions(1, name)), "perms=[]", "perms=nil")
					}, "")
				case "flush":
					both(i, op, "flush", func(s userIOService) string { return fmt.Sprint(s.Flush() == nil) }, "true")
				case "reopen":
					AuthService = file
					before := snapshot(file)
					beforeDB := snapshot(db)
					e1, e2 := file.Flush(), db.Flush()
					e3, e4 := file.Close(), db.Close()
					if e1 != nil || e2 != nil || e3 != nil || e4 != nil {
						out.Fail("C31/flush-close-failed", "op %d: flush/close failed: %v %v %v %v", i, e1, e2, e3, e4)
						break
					}
					caches.Purge(caches.AuthCache) // a new process has an empty cache
					if !open() {
						return
					}
					hist = append(hist, "reopen")
					if a := snapshot(file); a != before {
						out.Fail("C31/not-persistent", "op %d: the file store answers differently after flush+close+reopen: before %s ; after %s", i, before, a)
					}
					if b := snapshot(db); b != beforeDB {
						out.Fail("C31/not-persistent", "op %d: the database store answers differently after close+reopen: before %s ; after %s", i, beforeDB, b)
					}
					out.Probe("reopens", 1)
				case "advance":
					time.Sleep(time.Duration(op.Arg(0)) * time.Second)
				case "purge":
					caches.Purge(caches.AuthCache)
				}
			}
			if file != nil {
				file.Close()
				db.Close()
			}
			caches.VerifSimShutdown()
			time.Sleep(61 * time.Second)
		})
	})
	if p != nil {
		out.HarnessError = fmt.Sprint(p)
		return out
	}
	if herr != "" {
		out.HarnessError = herr
		return out
	}
	out.FromSched(res)
	out.Nontrivial = len(hist) >= 4
	out.Probe("operations", len(hist))
	out.Hash = simrun.HashStrings(0, hist...)
	if keepLog {
		out.Log = append(out.Log, hist...)
	}
	return out
}
