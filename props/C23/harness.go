package authserver

// C23 — OAuth codes and refresh tokens are single-use (engine oauth-race).
// In-package harness mapped into internal/server/oauth/authserver. DESIGN.md §3 C23.

import (
	"crypto/sha256"
	"encoding/base64"
	"encoding/json"
	"fmt"
	"net/http"
	"net/http/httptest"
	"net/url"
	"os"
	"path/filepath"
	"sort"
	"strings"
	stdsync "sync"
	"testing"
	"time"

	"golang.org/x/crypto/bcrypt"

	"github.com/tucats/ego/internal/caches"
	"github.com/tucats/ego/internal/router"
	"github.com/tucats/ego/internal/verifsim/sim"
	"github.com/tucats/ego/internal/verifsim/simrun"
	sync "github.com/tucats/ego/internal/verifsim/sync"
)

func TestVerifSim(t *testing.T) { simrun.Main(t, c23Engine{}) }

type c23Engine struct{}

func (c23Engine) Name() string     { return "oauth-race" }
func (c23Engine) Property() string { return "C23" }

const (
	c23Redirect = "https://app.example/cb"
	c23Secret   = "s3cret-of-conf"
)

var c23Verifiers = []string{"correct-verifier-0123456789abcdefghijklmnopqrstuvwxyz", "", "wrong-verifier-0123456789abcdefghijklmnopqrstuvwxyz0",
	"correct-verifier-0123456789abcdefghijklmnopqrstuvwxyzX", "CORRECT-VERIFIER-0123456789ABCDEFGHIJKLMNOPQRSTUVWXYZ"}

// Generate. Ops (executed in phases; all ops of a phase run concurrently, one task each):
//
//	code    A=[phase, codeIdx, verifierVariant, clientVariant(0 right,1 other), redirectVariant(0 right,1 wrong)]
//	refresh A=[phase, tokenRef]   tokenRef <100: pre-issued refresh token; >=100: the refresh token returned by op (tokenRef-100)
//	advance A=[phase, seconds]    (executed alone, between phases)
//
// Knobs: ncodes, pkce bitmask (code i was issued with a challenge), conf bitmask (code i belongs to the confidential client)
func (c23Engine) Generate(seed uint64, tier string) *simrun.Case {
	r := sim.NewRand(seed)
	c := &simrun.Case{Prop: "C23", Engine: "oauth-race", Seed: seed, SchedSeed: sim.Mix(seed, 23), Knobs: map[string]int64{}}
	ncodes := 1 + r.Intn(2)
	c.Knobs["ncodes"] = int64(ncodes)
	c.Knobs["pkce"] = int64(r.Intn(4))
	c.Knobs["conf"] = int64(r.Intn(4))
	c.Knobs["nrefresh"] = int64(1 + r.Intn(2))
	c.Knobs["preempt_num"] = 1
	c.Knobs["preempt_den"] = []int64{1, 1, 2, 3}[r.Intn(4)]
	// phase 0: concurrent code exchanges, mostly of the same code
	n0 := 2 + r.Intn(4)
	for i := 0; i < n0; i++ {
		code := int64(0)
		if r.Chance(1, 4) {
			code = int64(r.Intn(ncodes))
		}
		ver := int64(0)
		if r.Chance(1, 3) {
			ver = int64(r.Intn(len(c23Verifiers)))
		}
		cl, red := int64(0), int64(0)
		if r.Chance(1, 8) {
			cl = 1
		}
		if r.Chance(1, 8) {
			red = 1
		}
		if r.Chance(1, 5) {
			c.Ops = append(c.Ops, simrun.Op{C: i + 1, K: "refresh", A: []int64{0, int64(r.Intn(int(c.Knobs["nrefresh"])))}})
		} else {
			c.Ops = append(c.Ops, simrun.Op{C: i + 1, K: "code", A: []int64{0, code, ver, cl, red}})
		}
	}
	if r.Chance(1, 4) {
		c.Ops = append(c.Ops, simrun.Op{C: 0, K: "advance", A: []int64{0, []int64{1, 30, 61, 200}[r.Intn(4)]}})
	}
	// phases 1, 2: concurrent refreshes of tokens handed out before
	for ph := int64(1); ph <= 2; ph++ {
		n := 2 + r.Intn(3)
		// pick one or two sources and present each several times
		prev := len(c.Ops)
		src := int64(r.Intn(int(c.Knobs["nrefresh"])))
		if prev > 0 && r.Chance(3, 4) {
			src = 100 + int64(r.Intn(prev))
		}
		for i := 0; i < n; i++ {
			s := src
			if r.Chance(1, 4) {
				s = int64(r.Intn(int(c.Knobs["nrefresh"])))
				if prev > 0 && r.Bool() {
					s = 100 + int64(r.Intn(prev))
				}
			}
			c.Ops = append(c.Ops, simrun.Op{C: i + 1, K: "refresh", A: []int64{ph, s}})
		}
	}
	// swarm: in two thirds of the runs every mutex release is followed by a scheduling point (a goroutine can lose
	// the processor right after an Unlock, before its next statement)
	c.Knobs["unlock_yield"] = []int64{0, 1, 1}[r.Intn(3)]
	return c
}

type c23Result struct {
	status  int
	access  string
	refresh string
	cred    string // the code / refresh token presented
	kind    string
	verOK   bool // the right verifier was presented
	pkce    bool // the code was issued with a challenge
	skipped bool
}

var c23KeyDir string

func c23Setup(c *simrun.Case) (codes []string, pre []string, err error) {
	caches.VerifSimReset()
	if c23KeyDir == "" {
		// once per process: an EC signing key (real loadOrGenerateKey)
		dir, e := os.MkdirTemp(os.Getenv("TMPDIR"), "c23-")
		if e != nil {
			return nil, nil, e
		}
		if e := loadOrGenerateKey(filepath.Join(dir, "test.pem")); e != nil {
			return nil, nil, e
		}
		c23KeyDir = dir
	}
	asGlobalConfig = asConfig{Issuer: "https://ego.test", TokenExpiration: time.Hour, RefreshExpiration: 24 * time.Hour, CodeExpiration: 5 * time.Minute}
	hash, _ := bcrypt.GenerateFromPassword([]byte(c23Secret), bcrypt.MinCost)
	clients = []OAuthClient{
		{ClientID: "pub", RedirectURIs: []string{c23Redirect}, GrantTypes: []string{"authorization_code", "refresh_token"}, Scopes: []string{"openid"}},
		{ClientID: "conf", ClientSecretHash: string(hash), RedirectURIs: []string{c23Redirect}, GrantTypes: []string{"authorization_code", "refresh_token"}, Scopes: []string{"openid"}},
		{ClientID: "other", RedirectURIs: []string{c23Redirect}, GrantTypes: []string{"authorization_code", "refresh_token"}, Scopes: []string{"openid"}},
	}
	caches.SetExpiration(caches.OAuthCodeCache, "5m")
	caches.SetExpiration(caches.OAuthRefreshCache, "24h")
	h := sha256.Sum256([]byte(c23Verifiers[0]))
	challenge := base64.RawURLEncoding.EncodeToString(h[:])
	for i := 0; i < int(c.Knob("ncodes", 1)); i++ {
		code := fmt.Sprintf("code-%d-aaaaaaaaaaaaaaaaaaaaaaaaaaaaaaaaaaaaaaaa", i)
		p := PendingAuthorization{ClientID: c23ClientOf(c, i), RedirectURI: c23Redirect, Scopes: []string{"openid"}, Username: fmt.Sprintf("user%d", i), IssuedAt: time.Now()}
		if c23HasPKCE(c, i) {
			p.CodeChallenge, p.CodeChallengeMethod = challenge, "S256"
		}
		storeCode(code, p)
		codes = append(codes, code)
	}
	for i := 0; i < int(c.Knob("nrefresh", 1)); i++ {
		tok, e := generateRefreshToken("pub", fmt.Sprintf("ruser%d", i), []string{"openid"})
		if e != nil {
			return nil, nil, e
		}
		pre = append(pre, tok)
	}
	return codes, pre, nil
}

func c23ClientOf(c *simrun.Case, i int) string {
	if c.Knob("conf", 0)&(1<<uint(i)) != 0 {
		return "conf"
	}
	return "pub"
}

// public clients must use PKCE, so a public client's code always carries a challenge
func c23HasPKCE(c *simrun.Case, i int) bool {
	return c23ClientOf(c, i) == "pub" || c.Knob("pkce", 0)&(1<<uint(i)) != 0
}

func c23Post(form url.Values) (int, map[string]any) {
	req := httptest.NewRequest(http.MethodPost, "/oauth2/token", strings.NewReader(form.Encode()))
	req.Header.Set("Content-Type", "application/x-www-form-urlencoded")
	w := httptest.NewRecorder()
	status := TokenHandler(&router.Session{ID: 99}, w, req)
	var body map[string]any
	json.Unmarshal(w.Body.Bytes(), &body)
	if w.Code != 0 && w.Code != status {
		status = w.Code
	}
	return status, body
}

func (c23Engine) Execute(t *testing.T, c *simrun.Case, keepLog bool) *simrun.Outcome {
	out := &simrun.Outcome{}
	var res sim.Result
	results := make([]c23Result, len(c.Ops))
	var mu stdsync.Mutex
	var setupErr error
	p := simrun.Bubble(t, func() {
		codes, pre, err := c23Setup(c)
		if err != nil {
			setupErr = err
			return
		}
		res = sim.Run(c.SchedOptions(keepLog), func() {
			maxPhase := int64(0)
			for _, op := range c.Ops {
				if op.Arg(0) > maxPhase {
					maxPhase = op.Arg(0)
				}
			}
			for ph := int64(0); ph <= maxPhase; ph++ {
				var wg sync.WaitGroup
				for i, op := range c.Ops {
					if op.Arg(0) != ph || op.K == "advance" {
						continue
					}
					i, op := i, op
					// resolve the credential now (results of earlier phases are complete)
					r := c23Result{kind: op.K}
					form := url.Values{}
					switch op.K {
					case "code":
						ci := int(op.Arg(1)) % len(codes)
						r.cred = codes[ci]
						r.pkce = c23HasPKCE(c, ci)
						ver := c23Verifiers[int(op.Arg(2))%len(c23Verifiers)]
						r.verOK = ver == c23Verifiers[0]
						client := c23ClientOf(c, ci)
						if op.Arg(3) == 1 {
							client = "other"
						}
						form.Set("grant_type", "authorization_code")
						form.Set("code", r.cred)
						form.Set("client_id", client)
						if client == "conf" {
							form.Set("client_secret", c23Secret)
						}
						form.Set("redirect_uri", c23Redirect)
						if op.Arg(4) == 1 {
							form.Set("redirect_uri", c23Redirect+"/evil")
						}
						if ver != "" {
							form.Set("code_verifier", ver)
						}
					case "refresh":
						ref := int(op.Arg(1))
						client := "pub"
						if ref < 100 {
							r.cred = pre[ref%len(pre)]
						} else if ref-100 < i && results[ref-100].refresh != "" {
							r.cred = results[ref-100].refresh
							if src := c.Ops[ref-100]; src.K == "code" {
								client = c23ClientOf(c, int(src.Arg(1))%len(codes))
							} else {
								client = "" // resolved below: rotated tokens keep their client
							}
						} else {
							r.skipped = true
						}
						if client == "" {
							// follow the chain back to its origin
							j := ref - 100
							for c.Ops[j].K == "refresh" && int(c.Ops[j].Arg(1)) >= 100 {
								j = int(c.Ops[j].Arg(1)) - 100
							}
							client = "pub"
							if c.Ops[j].K == "code" {
								client = c23ClientOf(c, int(c.Ops[j].Arg(1))%len(codes))
							}
						}
						form.Set("grant_type", "refresh_token")
						form.Set("refresh_token", r.cred)
						form.Set("client_id", client)
						if client == "conf" {
							form.Set("client_secret", c23Secret)
						}
					}
					if r.skipped {
						results[i] = r
						continue
					}
					wg.Add(1)
					sim.Go(func() {
						defer wg.Done()
						status, body := c23Post(form)
						r.status = status
						if s, ok := body["access_token"].(string); ok {
							r.access = s
						}
						if s, ok := body["refresh_token"].(string); ok {
							r.refresh = s
						}
						mu.Lock()
						results[i] = r
						mu.Unlock()
					})
				}
				wg.Wait()
				for _, op := range c.Ops {
					if op.K == "advance" && op.Arg(0) == ph {
						time.Sleep(time.Duration(op.Arg(1)) * time.Second)
					}
				}
			}
			caches.VerifSimShutdown()
			time.Sleep(61 * time.Second)
		})
	})
	if p != nil {
		out.HarnessError = fmt.Sprint(p)
		return out
	}
	if setupErr != nil {
		out.HarnessError = setupErr.Error()
		return out
	}
	out.FromSched(res)
	// oracle
	uses := map[string][]int{}
	presented := map[string]int{}
	var hist []string
	for i, r := range results {
		if r.skipped || r.kind == "" {
			continue
		}
		presented[r.kind+":"+r.cred]++
		ok := r.status == http.StatusOK && r.access != ""
		hist = append(hist, fmt.Sprintf("%d:%s:%d:%v", i, r.kind, r.status, ok))
		if ok {
			uses[r.kind+":"+r.cred] = append(uses[r.kind+":"+r.cred], i)
			if r.kind == "code" && r.pkce && !r.verOK {
				out.Fail("C23/pkce-bypass", "op %d: a code issued with a PKCE challenge yielded tokens for a verifier that does not match (%s)", i, c.Ops[i])
			}
		}
	}
	for cred, n := range presented {
		if n >= 2 {
			out.Probe("credential_presented_concurrently_or_repeatedly", 1)
			out.Nontrivial = true
		}
		_ = cred
	}
	keys := make([]string, 0, len(uses))
	for k := range uses {
		keys = append(keys, k)
	}
	sort.Strings(keys)
	for _, k := range keys {
		if len(uses[k]) > 1 {
			kind := strings.SplitN(k, ":", 2)[0]
			out.Fail("C23/"+kind+"-used-twice", "%s yielded tokens %d times (ops %v)", map[string]string{"code": "an authorization code", "refresh": "a refresh token"}[kind], len(uses[k]), uses[k])
		}
		out.Probe("successful_exchanges", len(uses[k]))
	}
	if res.MaxRunnable >= 2 {
		out.Probe("runs_with_concurrent_requests", 1)
	}
	out.Hash = simrun.HashStrings(res.Hash, hist...)
	if keepLog {
		out.Log = append(out.Log, "results: "+strings.Join(hist, " "))
	}
	return out
}
