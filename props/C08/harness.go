package vmharness

// C08 — Concurrent Ego programs cannot corrupt the interpreter (engine vm-sched).
// External harness package (virtual dir internal/verifsim/vmharness). DESIGN.md §3 C08.
//
// A case describes a small concurrent Ego program: W workers (closures or named functions
// started with `go`), each a list of steps over shared state. In the *synchronised* family
// every shared access is under one Ego mutex (or goes through a channel), so the printed
// result is known by construction; in the *racy* family the Ego-level locking is dropped:
// the program's numbers may then vary but the interpreter must stay race-free (race build)
// and must not fail.

import (
	"fmt"
	"strings"
	"testing"

	"github.com/tucats/ego/internal/verifsim/sim"
	"github.com/tucats/ego/internal/verifsim/simrun"
)

func TestVerifSim(t *testing.T) { simrun.Main(t, c08Engine{}) }

type c08Engine struct{}

func (c08Engine) Name() string     { return "vm-sched" }
func (c08Engine) Property() string { return "C08" }

var c08Kinds = []string{"inc", "map", "arr", "send", "call", "loop", "local", "rwread", "rwwrite", "ptr", "fld"}

func (c08Engine) Generate(seed uint64, tier string) *simrun.Case {
	r := sim.NewRand(seed)
	c := &simrun.Case{Prop: "C08", Engine: "vm-sched", Seed: seed, SchedSeed: sim.Mix(seed, 8), Knobs: map[string]int64{}}
	w := 1 + r.Intn(3)
	if r.Chance(1, 5) {
		w = 4
	}
	c.Knobs["workers"] = int64(w)
	c.Knobs["chancap"] = int64(1 + r.Intn(4))
	c.Knobs["racy"] = 0
	if r.Chance(1, 4) {
		c.Knobs["racy"] = 1
	}
	c.Knobs["named"] = int64(r.Intn(16)) // bit i: worker i+1 is a named function instead of a closure
	c.Knobs["optimize"] = int64(r.Intn(2))
	c.Knobs["alloc"] = []int64{0, 4, 16, 64}[r.Intn(4)]
	c.Knobs["max_free"] = []int64{0, 0, 3, 12, 60}[r.Intn(5)]
	c.Knobs["preempt_num"] = 1
	c.Knobs["preempt_den"] = []int64{1, 2, 8}[r.Intn(3)]
	c.Knobs["waitfirst"] = int64(r.Intn(2)) // main waits for the WaitGroup before (1) or after (0) draining the channel
	// program shape: 0 = workers are closures started in main; 1, 2 = workers are started by a function called from
	// main (1) or from a function called from main (2) while main goes on declaring locals, and they call named functions
	c.Knobs["nested"] = []int64{0, 0, 1, 2, 3}[r.Intn(5)]
	c.Knobs["deepscope"] = []int64{1, 1, 1, 0}[r.Intn(4)] // ego.runtime.deep.scope: on in the default profile, `ego test` and the server
	for wi := 1; wi <= w; wi++ {
		n := 1 + r.Intn(5)
		for i := 0; i < n; i++ {
			k := c08Kinds[r.Intn(len(c08Kinds))]
			c.Ops = append(c.Ops, simrun.Op{C: wi, K: k, A: []int64{int64(r.Intn(2)), int64(1 + r.Intn(5))}})
		}
	}
	// swarm: in two thirds of the runs every mutex release is followed by a scheduling point (a goroutine can lose
	// the processor right after an Unlock, before its next statement)
	c.Knobs["unlock_yield"] = []int64{0, 1, 1}[r.Intn(3)]
	return c
}

// c08Program renders the Ego source and the expected output of the synchronised variant.
func c08Program(c *simrun.Case) (src, want string) {
	if c.Knob("nested", 0) > 0 {
		return c08NestedProgram(c)
	}
	w := int(c.Knob("workers", 1))
	racy := c.Knob("racy", 0) == 1
	lock, unlock := "mu.Lock()", "mu.Unlock()"
	if racy {
		lock, unlock = "", ""
	}
	cnt := [2]int64{}
	mp := [2]int64{}
	arr := [2]int64{}
	fld := [2]int64{}
	rw := int64(0)
	sends, sendSum := 0, int64(0)
	var body [5][]string
	for _, op := range c.Ops {
		if op.C < 1 || op.C > w {
			continue
		}
		t, v := op.Arg(0)%2, op.Arg(1)
		if v < 1 {
			v = 1
		}
		var s string
		switch op.K {
		case "inc":
			s = fmt.Sprintf("%s\n\t\tc%d = c%d + %d\n\t\t%s", lock, t, t, v, unlock)
			cnt[t] += v
		case "map":
			s = fmt.Sprintf("%s\n\t\tm[\"k%d\"] = m[\"k%d\"] + %d\n\t\t%s", lock, t, t, v, unlock)
			mp[t] += v
		case "arr":
			s = fmt.Sprintf("%s\n\t\tarr[%d] = arr[%d] + %d\n\t\t%s", lock, t, t, v, unlock)
			arr[t] += v
		case "send":
			s = fmt.Sprintf("ch <- %d", v)
			sends++
			sendSum += v
		case "call":
			if racy {
				s = fmt.Sprintf("c%d = bump(c%d, %d)", t, t, v)
			} else {
				s = fmt.Sprintf("mu.Lock()\n\t\tc%d = bump(c%d, %d)\n\t\tmu.Unlock()", t, t, v)
			}
			cnt[t] += v
		case "loop":
			s = fmt.Sprintf("for i := 0; i < %d; i = i + 1 {\n\t\t\t%s\n\t\t\tc%d = c%d + 1\n\t\t\t%s\n\t\t}", v, lock, t, t, unlock)
			cnt[t] += v
		case "local":
			s = fmt.Sprintf("x := id * %d\n\t\tx = x + %d\n\t\tif x < 0 {\n\t\t\tc0 = x\n\t\t}", v, t)
		case "rwread":
			s = "rw.RLock()\n\t\tt := r0\n\t\trw.RUnlock()\n\t\tif t < 0 {\n\t\t\tc0 = t\n\t\t}"
			if racy {
				s = "t := r0\n\t\tif t < 0 {\n\t\t\tc0 = t\n\t\t}"
			}
		case "rwwrite":
			s = fmt.Sprintf("rw.Lock()\n\t\tr0 = r0 + %d\n\t\trw.Unlock()", v)
			if racy {
				s = fmt.Sprintf("r0 = r0 + %d", v)
			}
			rw += v
		case "ptr":
			s = fmt.Sprintf("%s\n\t\taddTo(&c%d, %d)\n\t\t%s", lock, t, v, unlock)
			cnt[t] += v
		case "fld":
			// a field of a struct of a declared type, shared by the closures
			f := []string{"a", "b"}[t]
			s = fmt.Sprintf("%s\n\t\ttal.%s = tal.%s + %d\n\t\t%s", lock, f, f, v, unlock)
			fld[t] += v
		default:
			continue
		}
		body[op.C] = append(body[op.C], "{\n\t\t"+s+"\n\t\t}")
	}
	var b strings.Builder
	b.WriteString("package main\nimport \"fmt\"\nimport \"sync\"\n\n")
	b.WriteString("func bump(a int, d int) int {\n\treturn a + d\n}\n\n")
	b.WriteString("func addTo(p *int, d int) {\n\t*p = *p + d\n}\n\n")
	b.WriteString("type Tally struct {\n\ta int\n\tb int\n}\n\n")
	b.WriteString("func main() {\n\tvar mu sync.Mutex\n\tvar rw sync.RWMutex\n\tvar wg sync.WaitGroup\n")
	b.WriteString("\tc0 := 0\n\tc1 := 0\n\tr0 := 0\n\tm := map[string]int{\"k0\": 0, \"k1\": 0}\n\tarr := []int{0, 0}\n\ttal := Tally{a: 0, b: 0}\n")
	fmt.Fprintf(&b, "\tch := make(chan, %d)\n", c.Knob("chancap", 1))
	fmt.Fprintf(&b, "\twg.Add(%d)\n", w)
	for wi := 1; wi <= w; wi++ {
		fmt.Fprintf(&b, "\tgo func(id int) {\n\t\t%s\n\t\twg.Done()\n\t}(%d)\n", strings.Join(body[wi], "\n\t\t"), wi)
	}
	drain := fmt.Sprintf("\ts := 0\n\tfor i := 0; i < %d; i = i + 1 {\n\t\ts = s + <-ch\n\t}\n", sends)
	if c.Knob("waitfirst", 0) == 1 && sends <= int(c.Knob("chancap", 1)) {
		b.WriteString("\twg.Wait()\n" + drain)
	} else {
		b.WriteString(drain + "\twg.Wait()\n")
	}
	b.WriteString("\tmu.Lock()\n\trw.Lock()\n")
	b.WriteString("\tfmt.Println(c0, c1, r0, m[\"k0\"], m[\"k1\"], arr[0], arr[1], tal.a, tal.b, s)\n")
	b.WriteString("\trw.Unlock()\n\tmu.Unlock()\n}\n")
	want = fmt.Sprintf("%d %d %d %d %d %d %d %d %d %d\n", cnt[0], cnt[1], rw, mp[0], mp[1], arr[0], arr[1], fld[0], fld[1], sendSum)
	return b.String(), want
}

// c08NestedProgram: goroutines launched from a nested call; they share only channels and a WaitGroup with main
// (legal, race-free Go), call a named function in a loop, and main keeps declaring locals meanwhile.
func c08NestedProgram(c *simrun.Case) (src, want string) {
	w := int(c.Knob("workers", 1))
	per := make([]int, w+1)
	for _, op := range c.Ops {
		if op.C >= 1 && op.C <= w {
			per[op.C]++
		}
	}
	if c.Knob("nested", 1) == 3 {
		// shape 3: the workers are closures whose go statements are the FIRST statements of a named function
		// without parameters or locals (its call frame has resolved no name yet when it becomes shared); the
		// launcher then resolves package-level names itself while the closures start up. All shared state is
		// package-level and used through a channel and a WaitGroup only.
		var b strings.Builder
		b.WriteString("package main\nimport \"fmt\"\nimport \"sync\"\n\n")
		fmt.Fprintf(&b, "var wg sync.WaitGroup\nvar ch = make(chan, %d)\nvar base = 7\n\n", c.Knob("chancap", 1))
		b.WriteString("func helper(n int) int {\n\treturn n + 1\n}\n\n")
		b.WriteString("func start() {\n")
		total := 0
		for wi := 1; wi <= w; wi++ {
			k := 3 + 3*per[wi]
			total += k + wi + 7
			fmt.Fprintf(&b, "\tgo func() {\n\t\tt := 0\n\t\tfor i := 0; i < %d; i = i + 1 {\n\t\t\tt = helper(t)\n\t\t}\n\t\tch <- t + %d + base\n\t\twg.Done()\n\t}()\n", k, wi)
		}
		b.WriteString("\ty := base + 1\n\tz := y + base\n\tif z < 0 {\n\t\tfmt.Println(z)\n\t}\n}\n\n")
		fmt.Fprintf(&b, "func main() {\n\twg.Add(%d)\n\tstart()\n\ts := 0\n\tfor i := 0; i < %d; i = i + 1 {\n\t\ts = s + <-ch\n\t}\n\twg.Wait()\n\tfmt.Println(s, base)\n}\n", w, w)
		return b.String(), fmt.Sprintf("%d 7\n", total)
	}
	var b strings.Builder
	b.WriteString("package main\nimport \"fmt\"\nimport \"sync\"\n\n")
	b.WriteString("func helper(n int) int {\n\treturn n + 1\n}\n\n")
	b.WriteString("func launch(id int, k int, ch chan, wg *sync.WaitGroup) {\n\tgo func() {\n\t\tt := 0\n\t\tfor i := 0; i < k; i = i + 1 {\n\t\t\tt = helper(t)\n\t\t}\n\t\tch <- t + id\n\t\twg.Done()\n\t}()\n}\n\n")
	b.WriteString("func mid(id int, k int, ch chan, wg *sync.WaitGroup) {\n\tx := id * 2\n\tlaunch(id, k, ch, wg)\n\tx = x + 1\n}\n\n")
	b.WriteString("func main() {\n\tvar wg sync.WaitGroup\n")
	fmt.Fprintf(&b, "\tch := make(chan, %d)\n\twg.Add(%d)\n", c.Knob("chancap", 1), w)
	total := 0
	for wi := 1; wi <= w; wi++ {
		k := 3 + 3*per[wi]
		total += k + wi
		fn := "launch"
		if c.Knob("nested", 1) == 2 {
			fn = "mid"
		}
		fmt.Fprintf(&b, "\t%s(%d, %d, ch, &wg)\n", fn, wi, k)
	}
	m := 5 + len(c.Ops)
	b.WriteString("\ta0 := 1\n")
	for i := 1; i <= m; i++ {
		fmt.Fprintf(&b, "\ta%d := a%d + 1\n", i, i-1)
	}
	fmt.Fprintf(&b, "\ts := 0\n\tfor i := 0; i < %d; i = i + 1 {\n\t\ts = s + <-ch\n\t}\n\twg.Wait()\n", w)
	fmt.Fprintf(&b, "\tfmt.Println(s, a%d)\n}\n", m)
	return b.String(), fmt.Sprintf("%d %d\n", total, m+1)
}

func (c08Engine) Execute(t *testing.T, c *simrun.Case, keepLog bool) *simrun.Outcome {
	out := &simrun.Outcome{}
	src, want := c08Program(c)
	var res sim.Result
	var got string
	var cerr, rerr error
	var pan any
	opt := c.SchedOptions(keepLog)
	opt.MaxSteps = 300000
	p := simrun.Bubble(t, func() {
		res = sim.Run(opt, func() {
			defer func() { pan = recover() }()
			got, cerr, rerr = RunProgram("c08", src, VMOptions{Optimize: c.Knob("optimize", 0) == 1, AllocSize: int(c.Knob("alloc", 0)), DeepScope: c.Knob("deepscope", 1) == 1})
		})
	})
	if p != nil {
		out.HarnessError = fmt.Sprint(p)
		return out
	}
	out.FromSched(res)
	out.Nontrivial = res.MaxRunnable >= 2
	out.Probe("bytecode_steps", res.Sites["step"])
	if c.Knob("nested", 0) > 0 {
		out.Probe("nested_launch_programs", 1)
	}
	if c.Knob("racy", 0) == 1 {
		out.Probe("racy_programs", 1)
	} else {
		out.Probe("synchronised_programs", 1)
	}
	if keepLog {
		out.Log = append(out.Log, "program:\n"+src, "output: "+got, fmt.Sprint("want: ", want, " compileErr: ", cerr, " runErr: ", rerr))
	}
	if out.Violation != "" || out.Inconclusive != "" {
		return out
	}
	switch {
	case pan != nil:
		out.Fail("C08/host-panic", "the interpreter panicked: %v", pan)
	case cerr != nil:
		out.HarnessError = "generated program does not compile: " + cerr.Error() + "\n" + src
	case rerr != nil:
		out.Fail("C08/runtime-error", "program failed at run time: %v", rerr)
	case (c.Knob("racy", 0) == 0 || c.Knob("nested", 0) > 0) && got != want:
		out.Fail("C08/wrong-result", "fully synchronised program printed %q, expected %q under every schedule", got, want)
	case c.Knob("racy", 0) == 1 && c.Knob("nested", 0) == 0 && strings.Count(got, "\n") != 1:
		out.Fail("C08/wrong-result", "racy-by-design program did not print exactly one line: %q", got)
	}
	return out
}
