package auth

// C25 — Passwords are accepted exactly when they match (engine passwd-hist): the history and
// fault part. In-package harness mapped into internal/server/auth. DESIGN.md §3 C25.
//
// Real ValidatePassword against the real file-backed or database-backed store (knob), users
// stored as bcrypt, legacy SHA-256 or {plaintext}; histories of logins (user spelling x
// candidate password), plaintext-setting toggles, permission changes, flush, close+reopen,
// CRASH (reopen without flush: only durable state survives) and injected failures of the
// next WriteUser / Flush (through the AuthService seam). Model: accept iff the user exists
// (case-insensitively), the candidate equals the true password, the stored format is usable
// (plaintext only when enabled; the model tracks whether the migration to bcrypt became
// durable) and the user holds logon or root.

import (
	"fmt"
	"os"
	"path/filepath"
	"strings"
	"testing"
	"time"

	"github.com/tucats/ego/internal/caches"
	"github.com/tucats/ego/internal/cli/settings"
	"github.com/tucats/ego/internal/defs"
	egostrings "github.com/tucats/ego/internal/util/strings"
	"github.com/tucats/ego/internal/verifsim/sim"
	"github.com/tucats/ego/internal/verifsim/simrun"
)

func TestVerifSim(t *testing.T) { simrun.Main(t, c25Engine{}) }

type c25Engine struct{}

func (c25Engine) Name() string     { return "passwd-hist" }
func (c25Engine) Property() string { return "C25" }
func (c25Engine) WarmupRuns() int  { return 2 }

var c25Users = []string{"ann", "ben", "cat", "dan", "eve"} // formats: bcrypt, legacy, plaintext, legacy-without-logon, legacy with a passphrase longer than bcrypt's 72-byte input limit
var c25True = map[string]string{"ann": "Secret-1", "ben": "pass word", "cat": "Tr0ub4dor", "dan": "hunter2",
	"eve": "correct horse battery staple, and then quite a few more words so that the passphrase is well over seventy-two bytes long"}

// faulty wraps a store and fails the next WriteUser / Flush on demand (existing AuthService seam).
type c25Faulty struct {
	userIOService
	failWrite, failFlush int
	fired                map[string]int
}

func (f *c25Faulty) WriteUser(session int, u defs.User) error {
	if f.failWrite > 0 {
		f.failWrite--
		f.fired["write-error"]++
		return fmt.Errorf("injected: database or disk is full")
	}
	return f.userIOService.WriteUser(session, u)
}

func (f *c25Faulty) Flush() error {
	if f.failFlush > 0 {
		f.failFlush--
		f.fired["flush-error"]++
		return fmt.Errorf("injected: disk I/O error")
	}
	return f.userIOService.Flush()
}

// Ops: login [user(0..5; 5 = unknown user), spelling(0 exact,1 upper,2 mixed), candidate(0 right,1 wrong,2 empty,3 case variant,4 right+space,5 same first 72 bytes but another tail)]
// plaintext [on] ; perm [user, which(0 logon,1 root), on] ; flush ; reopen ; crash ; failwrite ; failflush ; advance [s] ; purge
func (c25Engine) Generate(seed uint64, tier string) *simrun.Case {
	r := sim.NewRand(seed)
	c := &simrun.Case{Prop: "C25", Engine: "passwd-hist", Seed: seed, SchedSeed: sim.Mix(seed, 25), Knobs: map[string]int64{}}
	c.Knobs["store"] = int64(r.Intn(2)) // 0 file, 1 database
	c.Knobs["plaintext"] = int64(r.Intn(2))
	n := 8 + r.Intn(20)
	for i := 0; i < n; i++ {
		switch x := r.Intn(100); {
		case x < 55:
			cand := int64(0)
			if r.Chance(1, 2) {
				cand = int64(r.Intn(6))
			}
			c.Ops = append(c.Ops, simrun.Op{K: "login", A: []int64{int64(r.Intn(6)), int64(r.Intn(3)), cand}})
		case x < 60:
			c.Ops = append(c.Ops, simrun.Op{K: "plaintext", A: []int64{int64(r.Intn(2))}})
		case x < 68:
			c.Ops = append(c.Ops, simrun.Op{K: "perm", A: []int64{int64(r.Intn(5)), int64(r.Intn(2)), int64(r.Intn(2))}})
		case x < 72:
			c.Ops = append(c.Ops, simrun.Op{K: "flush"})
		case x < 78:
			c.Ops = append(c.Ops, simrun.Op{K: "reopen"})
		case x < 84:
			c.Ops = append(c.Ops, simrun.Op{K: "crash"})
		case x < 89:
			c.Ops = append(c.Ops, simrun.Op{K: "failwrite"})
		case x < 93:
			c.Ops = append(c.Ops, simrun.Op{K: "failflush"})
		case x < 97:
			c.Ops = append(c.Ops, simrun.Op{K: "advance", A: []int64{[]int64{1, 59, 61, 200}[r.Intn(4)]}})
		default:
			c.Ops = append(c.Ops, simrun.Op{K: "purge"})
		}
	}
	return c
}

type c25Model struct {
	format string // bcrypt | legacy | plaintext
	logon  bool
	root   bool
}

func (c25Engine) Execute(t *testing.T, c *simrun.Case, keepLog bool) *simrun.Outcome {
	out := &simrun.Outcome{}
	dir, err := os.MkdirTemp(os.Getenv("TMPDIR"), "c25-")
	if err != nil {
		out.HarnessError = err.Error()
		return out
	}
	defer os.RemoveAll(dir)
	var res sim.Result
	var hist []string
	var herr string
	fired := map[string]int{}
	p := simrun.Bubble(t, func() {
		caches.VerifSimReset()
		settings.SetDefault(defs.LogonUserdataKeySetting, "")
		setPlain := func(on bool) {
			if on {
				settings.SetDefault(defs.PlaintextPasswordSetting, "true")
			} else {
				settings.SetDefault(defs.PlaintextPasswordSetting, "false")
			}
		}
		plain := c.Knob("plaintext", 0) == 1
		setPlain(plain)
		useDB := c.Knob("store", 0) == 1
		var real userIOService
		var svc *c25Faulty
		open := func() bool {
			var e error
			if useDB {
				real, e = NewDatabaseService("sqlite3://"+filepath.Join(dir, "users.db"), "admin", "adminpw")
			} else {
				real, e = NewFileService(filepath.Join(dir, "users.json"), "admin", "adminpw")
			}
			if e != nil {
				herr = "open: " + e.Error()
				return false
			}
			svc = &c25Faulty{userIOService: real, fired: fired}
			AuthService = svc
			return true
		}
		res = sim.Run(c.SchedOptions(keepLog), func() {
			if !open() {
				return
			}
			bh, _ := HashPassword(c25True["ann"])
			seed := []defs.User{
				{Name: "ann", Password: bh, Permissions: []string{defs.LogonPermission}},
				{Name: "ben", Password: egostrings.HashString(c25True["ben"]), Permissions: []string{defs.LogonPermission}},
				{Name: "cat", Password: "{" + c25True["cat"] + "}", Permissions: []string{defs.RootPermission}},
				{Name: "dan", Password: egostrings.HashString(c25True["dan"]), Permissions: []string{"ego.table.read"}},
				{Name: "eve", Password: egostrings.HashString(c25True["eve"]), Permissions: []string{defs.LogonPermission}},
			}
			model := map[string]*c25Model{"ann": {"bcrypt", true, false}, "ben": {"legacy", true, false}, "cat": {"plaintext", false, true}, "dan": {"legacy", false, false}, "eve": {"legacy", true, false}}
			durable := map[string]c25Model{}
			for _, u := range seed {
				if e := real.WriteUser(0, u); e != nil {
					herr = "seed: " + e.Error()
					return
				}
			}
			real.Flush()
			for k, v := range model {
				durable[k] = *v
			}
			// pendingMig: users whose in-memory credential is already bcrypt but whose durable one may not be (file store, flush failed)
			for i, op := range c.Ops {
				if out.Violation != "" {
					break
				}
				switch op.K {
				case "login":
					name := "zoe"
					if op.Arg(0) < 5 {
						name = c25Users[op.Arg(0)]
					}
					spelled := name
					switch op.Arg(1) % 3 {
					case 1:
						spelled = strings.ToUpper(name)
					case 2:
						spelled = strings.ToUpper(name[:1]) + name[1:]
					}
					truth := c25True[name]
					cand := truth
					switch op.Arg(2) % 6 {
					case 1:
						cand = "definitely-wrong"
					case 2:
						cand = ""
					case 3:
						cand = strings.ToUpper(truth)
						if cand == truth {
							cand = strings.ToLower(truth)
						}
					case 4:
						cand = truth + " "
					case 5:
						if len(truth) > 72 {
							cand = truth[:72] + " but a different ending"
						} else {
							cand = truth + "x"
						}
					}
					m := model[name]
					want := m != nil && cand == truth && cand != "" && (m.format != "plaintext" || plain) && (m.logon || m.root)
					wantMatch := m != nil && cand == truth && cand != "" && (m.format != "plaintext" || plain)
					got := ValidatePassword(1, spelled, cand)
					hist = append(hist, fmt.Sprintf("login %s/%q -> %v", spelled, cand, got))
					if got != want {
						class, what := "wrong-password-accepted", "accepted"
						if !got {
							class, what = "right-password-rejected", "rejected"
						}
						if got && cand == truth {
							class = "login-without-permission-or-format"
						}
						out.Fail("C25/"+class, "op %d: user %q (stored as %s, logon=%v root=%v, plaintext enabled=%v) with candidate %q (true password %q) was %s ; history: %s",
							i, spelled, fmtFormat(m), m != nil && m.logon, m != nil && m.root, plain, cand, truth, what, strings.Join(hist, " | "))
					}
					// migration: a successful comparison of a legacy/plaintext credential upgrades it to bcrypt;
					// it is durable if the write and (file store) the flush succeeded. Acceptance must not depend on it.
					if wantMatch && m.format != "bcrypt" {
						out.Probe("migration_attempts", 1)
						// what the store now holds in memory is bcrypt unless the write was refused
						u, e := real.ReadUser(1, name, true)
						if e == nil && IsBcryptHash(u.Password) {
							m.format = "bcrypt"
							out.Probe("migrations_done", 1)
						}
					}
				case "plaintext":
					plain = op.Arg(0) == 1
					setPlain(plain)
				case "perm":
					name := c25Users[op.Arg(0)%5]
					perm := []string{defs.LogonPermission, defs.RootPermission}[op.Arg(1)%2]
					on := op.Arg(2) == 1
					if e := setPermission(1, name, perm, on); e == nil {
						if op.Arg(1)%2 == 0 {
							model[name].logon = on
						} else {
							model[name].root = on
						}
						// setPermission gives a user with an empty list the legacy default "logon" (not ego.logon)
					}
					// re-read what is stored: the model follows the store for permissions (C31 decides those)
					if u, e := real.ReadUser(1, name, true); e == nil {
						model[name].logon = findPermission(u, defs.LogonPermission) >= 0
						model[name].root = findPermission(u, defs.RootPermission) >= 0
					}
				case "flush":
					svc.Flush()
				case "failwrite":
					svc.failWrite = 1
				case "failflush":
					svc.failFlush = 1
				case "reopen", "crash":
					if op.K == "reopen" {
						real.Flush()
						real.Close()
					} else {
						out.Fault("crash-without-flush")
						if useDB {
							real.Close() // (a database handle has nothing unflushed; closing only releases the file)
						}
					}
					caches.Purge(caches.AuthCache)
					if !open() {
						return
					}
					// only durable state survives: formats and permissions are re-read from the reopened store
					for _, name := range c25Users {
						u, e := real.ReadUser(1, name, true)
						if e != nil {
							out.Fail("C25/user-lost", "op %d: user %s does not exist after %s", i, name, op.K)
							break
						}
						m := model[name]
						switch {
						case IsBcryptHash(u.Password):
							m.format = "bcrypt"
						case strings.HasPrefix(u.Password, "{"):
							m.format = "plaintext"
						default:
							m.format = "legacy"
						}
						m.logon = findPermission(u, defs.LogonPermission) >= 0
						m.root = findPermission(u, defs.RootPermission) >= 0
					}
					hist = append(hist, op.K)
					out.Probe(op.K, 1)
				case "advance":
					time.Sleep(time.Duration(op.Arg(0)) * time.Second)
				case "purge":
					caches.Purge(caches.AuthCache)
				}
			}
			if real != nil {
				real.Close()
			}
			caches.VerifSimShutdown()
			time.Sleep(61 * time.Second)
		})
	})
	if p != nil {
		out.HarnessError = fmt.Sprint(p)
		return out
	}
	if herr != "" {
		out.HarnessError = herr
		return out
	}
	out.FromSched(res)
	for k, v := range fired {
		for j := 0; j < v; j++ {
			out.Fault(k)
		}
	}
	out.Nontrivial = len(hist) >= 3
	out.Probe("logins", len(hist))
	out.Hash = simrun.HashStrings(0, append([]string{fmt.Sprint(c.Knobs)}, hist...)...)
	if keepLog {
		out.Log = append(out.Log, hist...)
	}
	return out
}

func fmtFormat(m *c25Model) string {
	if m == nil {
		return "<no such user>"
	}
	return m.format
}
