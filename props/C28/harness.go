package caches

// C28 — Server caches behave like bounded expiring maps (engine cache-lin).
// In-package harness (mapped into internal/caches by the overlay). See DESIGN.md §3 C28.

import (
	"fmt"
	"sort"
	"strings"
	stdsync "sync"
	"testing"
	"time"

	"github.com/anishathalye/porcupine"
	"github.com/tucats/ego/internal/cli/settings"
	"github.com/tucats/ego/internal/defs"
	"github.com/tucats/ego/internal/verifsim/sim"
	"github.com/tucats/ego/internal/verifsim/simrun"
	sync "github.com/tucats/ego/internal/verifsim/sync"
)

func TestVerifSim(t *testing.T) { simrun.Main(t, c28Engine{}) }

type c28Engine struct{}

func (c28Engine) Name() string     { return "cache-lin" }
func (c28Engine) Property() string { return "C28" }

// Two cache classes per run. The ids are fresh for every run of a process (a class's
// configured lifetime is process-wide state that no public API resets), starting from a
// fixed base so that a run does not depend on its position in a batch except for the ids,
// which nothing observable depends on.
var c28Classes = []int{5000, 5001}
var c28NextClass = 5000
var c28Lifetimes = []string{"5s", "90s", "5m"}
var c28Advances = []int64{1, 4, 7, 31, 59, 62, 95, 130, 310}

// Generate: phases of client operations separated by time advances.
// KeepArg: written values stay unique under shrinking (every read and every eviction report is attributed to one write by its value).
func (c28Engine) KeepArg(op simrun.Op, ai int) bool { return op.K == "add" && ai == 2 }

func (c28Engine) Generate(seed uint64, tier string) *simrun.Case {
	r := sim.NewRand(seed)
	c := &simrun.Case{Prop: "C28", Engine: "cache-lin", Seed: seed, SchedSeed: sim.Mix(seed, 99), Knobs: map[string]int64{}}
	nclients := 1 + r.Intn(4)
	if r.Chance(1, 3) {
		nclients = 1
	}
	c.Knobs["clients"] = int64(nclients)
	c.Knobs["maxsize"] = []int64{1, 2, 3, 1000}[r.Intn(4)]
	c.Knobs["reentrant_listener"] = int64(r.Intn(2))
	c.Knobs["preempt_num"] = 1
	c.Knobs["preempt_den"] = []int64{1, 2, 4}[r.Intn(3)]
	nkeys := 2 + r.Intn(2)
	nops := 6 + r.Intn(18)
	val := int64(0)
	for i := 0; i < nops; i++ {
		cl := 1 + r.Intn(nclients)
		class := int64(r.Intn(len(c28Classes)))
		key := int64(r.Intn(nkeys))
		switch x := r.Intn(100); {
		case x < 28:
			val++
			c.Ops = append(c.Ops, simrun.Op{C: cl, K: "add", A: []int64{class, key, val}})
		case x < 52:
			c.Ops = append(c.Ops, simrun.Op{C: cl, K: "find", A: []int64{class, key}})
		case x < 64:
			c.Ops = append(c.Ops, simrun.Op{C: cl, K: "delete", A: []int64{class, key}})
		case x < 69:
			c.Ops = append(c.Ops, simrun.Op{C: cl, K: "purge", A: []int64{class}})
		case x < 73:
			c.Ops = append(c.Ops, simrun.Op{C: cl, K: "purgelocal", A: []int64{class}})
		case x < 79:
			c.Ops = append(c.Ops, simrun.Op{C: cl, K: "setexp", A: []int64{class, int64(r.Intn(len(c28Lifetimes)))}})
		case x < 84:
			c.Ops = append(c.Ops, simrun.Op{C: cl, K: "sweep", A: []int64{class}})
		case x < 88:
			c.Ops = append(c.Ops, simrun.Op{C: cl, K: "size", A: []int64{class}})
		default:
			c.Ops = append(c.Ops, simrun.Op{C: 0, K: "advance", A: []int64{c28Advances[r.Intn(len(c28Advances))]}})
		}
	}
	if r.Chance(1, 4) {
		// scenario appended to the random history: an item is past its expiry but not swept yet; then a sweep of
		// its class runs concurrently with a fresh Add of the same key (and lookups of it) by another client
		if nclients < 2 {
			nclients = 2
			c.Knobs["clients"] = 2
		}
		class, key := int64(r.Intn(len(c28Classes))), int64(r.Intn(nkeys))
		val++
		c.Ops = append(c.Ops, simrun.Op{C: 1, K: "setexp", A: []int64{class, 0}}, simrun.Op{C: 1, K: "add", A: []int64{class, key, val}},
			simrun.Op{C: 0, K: "advance", A: []int64{[]int64{7, 31}[r.Intn(2)]}})
		val++
		c.Ops = append(c.Ops, simrun.Op{C: 1, K: "sweep", A: []int64{class}}, simrun.Op{C: 2, K: "add", A: []int64{class, key, val}},
			simrun.Op{C: 2, K: "find", A: []int64{class, key}})
		if r.Chance(1, 2) {
			c.Ops = append(c.Ops, simrun.Op{C: 1, K: "find", A: []int64{class, key}})
		}
		c.Ops = append(c.Ops, simrun.Op{C: 0, K: "advance", A: []int64{1}}, simrun.Op{C: 1, K: "find", A: []int64{class, key}})
	}
	// swarm: in two thirds of the runs every mutex release is followed by a scheduling point (a goroutine can lose
	// the processor right after an Unlock, before its next statement)
	c.Knobs["unlock_yield"] = []int64{0, 1, 1}[r.Intn(3)]
	return c
}

// ---------------------------------------------------------------- recording

type c28In struct {
	Kind  string
	Class int
	Key   int
	Val   int64
	Life  time.Duration
	T     time.Duration // fake time since run start at invoke
}

type c28Evict struct {
	Key int
	Val int64
}

type c28Out struct {
	Found   bool
	Val     int64
	N       int
	Evicted []c28Evict
	T2      time.Duration // fake time at return
}

type c28Rec struct {
	mu      stdsync.Mutex // real mutex: harness bookkeeping only
	ops     []porcupine.Operation
	current map[string]*c28Out // task id -> output being collected
	reports map[int64]int      // value -> number of eviction reports
	bg      int
	marks   []c28Mark // (logical time, fake time) at which each time advance began
	start   time.Time
	bad     []string
	limit   int
}

func (c28Engine) Execute(t *testing.T, c *simrun.Case, keepLog bool) *simrun.Outcome {
	out := &simrun.Outcome{}
	var res sim.Result
	rec := &c28Rec{current: map[string]*c28Out{}, reports: map[int64]int{}, limit: int(c.Knob("maxsize", 1000))}
	p := simrun.Bubble(t, func() {
		c28Classes = []int{c28NextClass, c28NextClass + 1}
		c28NextClass += 2
		c28Reset(int(c.Knob("maxsize", 1000)))
		rec.start = time.Now()
		reentrant := c.Knob("reentrant_listener", 0) == 1
		SetOnEvict(func(id int, key any, value any) {
			rec.onEvict(id, key, value)
			if reentrant {
				// a listener may call back into the package (documented guarantee)
				Find(id, "no-such-key")
			}
		})
		res = sim.Run(c.SchedOptions(keepLog), func() { c28Main(c, rec) })
		SetOnEvict(nil)
	})
	if p != nil {
		out.HarnessError = fmt.Sprint(p)
		return out
	}
	out.FromSched(res)
	out.Nontrivial = len(rec.ops) >= 3
	if c.Knob("clients", 1) > 1 && res.MaxRunnable < 2 {
		// concurrency requested but never materialised: still counts, by history
	}
	// history id = scheduler hash + the observable history
	// (sorted: the listener is called in Go map order for the entries of one sweep, which no
	// seam controls and which the oracle does not depend on)
	h := res.Hash
	var hs []string
	for _, op := range rec.ops {
		hs = append(hs, fmt.Sprintf("%d|%v|%v", op.ClientId, op.Input, op.Output))
	}
	sort.Strings(hs)
	out.Hash = simrun.HashStrings(h, hs...)
	out.Probe("ops", len(rec.ops))
	out.Probe("bg_evictions", rec.bg)
	if out.Violation != "" || out.Inconclusive != "" {
		return out
	}
	for _, b := range rec.bad {
		out.Fail("C28/"+strings.SplitN(b, ":", 2)[0], "%s", b)
	}
	// exactly-once (at most once part; the "at least once" part is in the model's final op)
	for v, n := range rec.reports {
		if n > 1 {
			out.Fail("C28/evict-reported-twice", "value %d reported %d times to the eviction listener", v, n)
		}
	}
	if out.Violation != "" {
		return out
	}
	r := porcupine.CheckOperationsTimeout(c28Model(int(c.Knob("maxsize", 1000)), false), rec.ops, 20*time.Second)
	switch r {
	case porcupine.Illegal:
		// classify: does the history become legal if a purge is allowed to reset the class's
		// configured lifetime to the default? Then it is exactly the "lifetime forgotten" class.
		if porcupine.CheckOperationsTimeout(c28Model(int(c.Knob("maxsize", 1000)), true), rec.ops, 20*time.Second) == porcupine.Ok {
			out.Fail("C28/lifetime-forgotten-after-purge", "a cache class's configured lifetime was not in force after a purge: %s", c28Describe(rec.ops))
		} else {
			out.Fail("C28/not-linearizable", "history is not a linearization of a bounded expiring map: %s", c28Describe(rec.ops))
		}
	case porcupine.Unknown:
		out.Inconclusive = "porcupine timeout"
	default:
		out.Probe("linearizable_histories", 1)
	}
	if keepLog {
		out.Log = append(out.Log, "history: "+c28Describe(rec.ops))
	}
	return out
}

func c28Reset(maxsize int) {
	cacheLock = sync.RWMutex{}
	onEvictMutex = sync.RWMutex{}
	cacheList = map[int]Cache{}
	expirationThreadRunning = map[int]bool{}
	active = true
	onEvict = nil
	OnPurge = nil
	MaxCacheSize = maxsize
	sequenceNumber.Store(0)
	settings.SetDefault(defs.ServerMaxCacheSizeSetting, fmt.Sprint(maxsize))
}

func (r *c28Rec) onEvict(id int, key any, value any) {
	r.mu.Lock()
	defer r.mu.Unlock()
	v, _ := value.(int64)
	k := -1
	fmt.Sscanf(fmt.Sprint(key), "k%d", &k)
	r.reports[v]++
	tid := sim.TaskID()
	if cur := r.current[tid]; cur != nil {
		cur.Evicted = append(cur.Evicted, c28Evict{k, v})
		return
	}
	// background sweeper: record as its own operation at this instant
	r.bg++
	ci := c28ClassIndex(id)
	// The sweeper removed the entry under the cache lock some time BEFORE this callback (it reports after
	// releasing the lock, and other tasks can run in between), but not before it woke, i.e. not before the
	// time advance that brought the clock to this instant began: the operation spans [that advance began, callback].
	tk := sim.Tick()
	now := time.Since(r.start)
	// (the advance that moved the fake clock to this instant is the latest one that BEGAN before it; a later
	// advance may already have been marked when the callback finally runs)
	for _, m := range r.marks {
		if m.at < now {
			tk = m.tick
		}
	}
	r.ops = append(r.ops, porcupine.Operation{ClientId: 60, Call: tk, Return: sim.Tick(),
		Input:  c28In{Kind: "bgevict", Class: ci, Key: k, Val: v, T: now},
		Output: c28Out{T2: now}})
}

type c28Mark struct {
	tick int64
	at   time.Duration
}

func (r *c28Rec) markAdvance() {
	tk := sim.Tick()
	r.mu.Lock()
	r.marks = append(r.marks, c28Mark{tk, time.Since(r.start)})
	r.mu.Unlock()
}

func c28ClassIndex(id int) int {
	for i, c := range c28Classes {
		if c == id {
			return i
		}
	}
	return -1
}

func c28Main(c *simrun.Case, rec *c28Rec) {
	n := int(c.Knob("clients", 1))
	// split ops into phases at "advance"
	var phase []simrun.Op
	flush := func() {
		if len(phase) == 0 {
			return
		}
		per := map[int][]simrun.Op{}
		for _, op := range phase {
			cl := op.C
			if cl < 1 || cl > n {
				cl = 1
			}
			per[cl] = append(per[cl], op)
		}
		var wg sync.WaitGroup
		for cl := 1; cl <= n; cl++ {
			ops := per[cl]
			if len(ops) == 0 {
				continue
			}
			cl := cl
			wg.Add(1)
			sim.Go(func() {
				defer wg.Done()
				for _, op := range ops {
					c28Do(cl, op, rec)
				}
			})
		}
		wg.Wait()
		phase = nil
	}
	for _, op := range c.Ops {
		if op.K == "advance" {
			flush()
			rec.markAdvance()
			time.Sleep(time.Duration(op.Arg(0)) * time.Second)
			continue
		}
		phase = append(phase, op)
	}
	flush()
	// final: let everything expire and be swept, then ask for the final accounting
	rec.markAdvance()
	time.Sleep(10 * time.Minute)
	for ci := range c28Classes {
		c28Do(1, simrun.Op{K: "final", A: []int64{int64(ci)}}, rec)
	}
	// shut the sweepers down so that they do not outlive the run
	for _, id := range c28Classes {
		PurgeLocal(id)
	}
	time.Sleep(61 * time.Second)
}

func c28Do(client int, op simrun.Op, rec *c28Rec) {
	limit := rec.limit
	ci := int(op.Arg(0))
	id := c28Classes[ci%len(c28Classes)]
	key := fmt.Sprintf("k%d", op.Arg(1))
	in := c28In{Kind: op.K, Class: ci, Key: int(op.Arg(1)), T: time.Since(rec.start)}
	o := &c28Out{}
	tid := sim.TaskID()
	rec.mu.Lock()
	rec.current[tid] = o
	rec.mu.Unlock()
	call := sim.Tick()
	switch op.K {
	case "add":
		in.Val = op.Arg(2)
		Add(id, key, in.Val)
	case "find":
		v, ok := Find(id, key)
		o.Found = ok
		if ok {
			iv, isInt := v.(int64)
			if !isInt {
				iv = -1
			}
			o.Val = iv
		}
	case "delete":
		o.Found = Delete(id, key)
	case "purge":
		Purge(id)
	case "purgelocal":
		PurgeLocal(id)
	case "setexp":
		d := c28Lifetimes[int(op.Arg(1))%len(c28Lifetimes)]
		in.Life, _ = time.ParseDuration(d)
		if err := SetExpiration(id, d); err != nil {
			o.N = -1
		}
	case "sweep":
		sweepExpired(id)
	case "size", "final":
		o.N = Size(id)
	}
	ret := sim.Tick()
	o.T2 = time.Since(rec.start)
	n := Size(id) // (never call into the package while holding the recorder's real mutex)
	rec.mu.Lock()
	delete(rec.current, tid)
	// (the listener is called in Go map order for the entries of one sweep, which no seam controls; the
	// oracle treats the reports of one operation as a set)
	sort.Slice(o.Evicted, func(a, b int) bool {
		if o.Evicted[a].Key != o.Evicted[b].Key {
			return o.Evicted[a].Key < o.Evicted[b].Key
		}
		return o.Evicted[a].Val < o.Evicted[b].Val
	})
	if n > limit {
		rec.bad = append(rec.bad, fmt.Sprintf("over-limit: cache class %d holds %d entries, limit %d", id, n, limit))
	}
	rec.ops = append(rec.ops, porcupine.Operation{ClientId: client, Call: call, Return: ret, Input: in, Output: *o})
	rec.mu.Unlock()
}

// ---------------------------------------------------------------- reference model

// State of one cache class, canonically encoded as a string:
//   life|k:val:exp,k:val:exp|zombie vals
type c28Item struct {
	val int64
	exp time.Duration
}
type c28State struct {
	life    time.Duration
	items   map[int]c28Item
	zombies []int64 // values removed from lookup by an expired-miss, still owed one eviction report
}

func (s c28State) encode() string {
	var b strings.Builder
	fmt.Fprintf(&b, "%d|", s.life)
	keys := make([]int, 0, len(s.items))
	for k := range s.items {
		keys = append(keys, k)
	}
	sort.Ints(keys)
	for _, k := range keys {
		fmt.Fprintf(&b, "%d:%d:%d,", k, s.items[k].val, s.items[k].exp)
	}
	b.WriteString("|")
	z := append([]int64{}, s.zombies...)
	sort.Slice(z, func(i, j int) bool { return z[i] < z[j] })
	for _, v := range z {
		fmt.Fprintf(&b, "%d,", v)
	}
	return b.String()
}

func c28Decode(e string) c28State {
	s := c28State{items: map[int]c28Item{}}
	parts := strings.Split(e, "|")
	var l int64
	fmt.Sscanf(parts[0], "%d", &l)
	s.life = time.Duration(l)
	for _, it := range strings.Split(parts[1], ",") {
		if it == "" {
			continue
		}
		var k int
		var v, x int64
		fmt.Sscanf(it, "%d:%d:%d", &k, &v, &x)
		s.items[k] = c28Item{v, time.Duration(x)}
	}
	for _, z := range strings.Split(parts[2], ",") {
		if z == "" {
			continue
		}
		var v int64
		fmt.Sscanf(z, "%d", &v)
		s.zombies = append(s.zombies, v)
	}
	return s
}

func (s c28State) clone() c28State {
	n := c28State{life: s.life, items: map[int]c28Item{}, zombies: append([]int64{}, s.zombies...)}
	for k, v := range s.items {
		n.items[k] = v
	}
	return n
}

const c28DefaultLife = 60 * time.Second

func c28Model(capacity int, purgeForgets bool) porcupine.Model {
	nm := porcupine.NondeterministicModel{
		Partition: func(history []porcupine.Operation) [][]porcupine.Operation {
			m := map[int][]porcupine.Operation{}
			for _, op := range history {
				cl := op.Input.(c28In).Class
				m[cl] = append(m[cl], op)
			}
			var out [][]porcupine.Operation
			for _, cl := range []int{0, 1} {
				if len(m[cl]) > 0 {
					out = append(out, m[cl])
				}
			}
			return out
		},
		Init: func() []interface{} {
			return []interface{}{c28State{life: c28DefaultLife, items: map[int]c28Item{}}.encode()}
		},
		Step: func(state, input, output interface{}) []interface{} {
			s := c28Decode(state.(string))
			in := input.(c28In)
			o := output.(c28Out)
			var next []interface{}
			emit := func(x c28State) { next = append(next, x.encode()) }
			// an operation that spans a clock change may be evaluated at either end
			times := []time.Duration{in.T}
			if o.T2 != in.T {
				times = append(times, o.T2)
			}
			for _, now := range times {
				c28Step(s, in, o, now, capacity, purgeForgets, emit)
			}
			return next
		},
		Equal: func(a, b interface{}) bool { return a.(string) == b.(string) },
	}
	return nm.ToModel()
}

// c28Step: all states reachable from s by operation in with observed output o at time now.
func c28Step(s c28State, in c28In, o c28Out, now time.Duration, capacity int, purgeForgets bool, emit func(c28State)) {
	// an entry with exp > now must still be served; exp <= now may be treated as gone
	evictable := func(it c28Item) bool { return it.exp <= now } // may be treated as gone
	switch in.Kind {
	case "add":
		if len(o.Evicted) != 0 {
			return
		}
		n := s.clone()
		delete(n.items, in.Key) // replacing: old value silently dropped (no report demanded)
		if len(n.items) < capacity {
			n.items[in.Key] = c28Item{in.Val, now + s.life}
			emit(n)
			return
		}
		// at capacity: the entry may be dropped ...
		emit(n)
		// ... or room may be made by discarding an entry that has already expired
		for k, it := range n.items {
			if evictable(it) {
				m := n.clone()
				delete(m.items, k)
				m.zombies = append(m.zombies, it.val)
				m.items[in.Key] = c28Item{in.Val, now + s.life}
				emit(m)
			}
		}
	case "find":
		if len(o.Evicted) != 0 {
			return
		}
		it, ok := s.items[in.Key]
		switch {
		case !ok:
			if !o.Found {
				emit(s)
			}
		case o.Found:
			if o.Val == it.val { // hit (also allowed for an expired, unswept entry): slides
				n := s.clone()
				n.items[in.Key] = c28Item{it.val, now + s.life}
				emit(n)
			}
		default: // miss although present: only legal if expired
			if evictable(it) {
				n := s.clone()
				delete(n.items, in.Key)
				n.zombies = append(n.zombies, it.val)
				emit(n)
			}
		}
	case "delete":
		it, ok := s.items[in.Key]
		switch {
		case !ok:
			if !o.Found && len(o.Evicted) == 0 {
				emit(s)
			}
		case o.Found:
			// removed now: exactly one report, for this key and value, during the call
			if len(o.Evicted) == 1 && o.Evicted[0].Key == in.Key && o.Evicted[0].Val == it.val {
				n := s.clone()
				delete(n.items, in.Key)
				emit(n)
			}
		default:
			if evictable(it) && len(o.Evicted) == 0 {
				n := s.clone()
				delete(n.items, in.Key)
				n.zombies = append(n.zombies, it.val)
				emit(n)
			}
		}
	case "purge", "purgelocal":
		if len(o.Evicted) != 0 {
			return
		}
		n := s.clone()
		n.items = map[int]c28Item{}
		n.zombies = nil // purged entries are not owed a report
		if purgeForgets {
			n.life = c28DefaultLife // (classification model only)
		}
		emit(n) // the configured lifetime stays in force
	case "setexp":
		if o.N != 0 || len(o.Evicted) != 0 {
			return
		}
		n := s.clone()
		n.life = in.Life
		emit(n)
	case "sweep":
		// removes every expired entry (boundary instants may go either way); each removed
		// entry and nothing else is reported.
		n := s.clone()
		rep := map[int64]bool{}
		for _, e := range o.Evicted {
			rep[e.Val] = true
		}
		for k, it := range s.items {
			if rep[it.val] {
				if !evictable(it) {
					return // a live entry was evicted
				}
				delete(n.items, k)
				delete(rep, it.val)
			} else if it.exp < now {
				return // an expired entry survived an explicit sweep
			}
		}
		var z []int64
		for _, v := range n.zombies {
			if rep[v] {
				delete(rep, v)
			} else {
				z = append(z, v)
			}
		}
		n.zombies = z
		if len(rep) != 0 {
			return // reported something that was not there
		}
		emit(n)
	case "bgevict":
		if it, ok := s.items[in.Key]; ok && it.val == in.Val {
			if evictable(it) {
				n := s.clone()
				delete(n.items, in.Key)
				emit(n)
			}
			return
		}
		for i, v := range s.zombies {
			if v == in.Val {
				n := s.clone()
				n.zombies = append(append([]int64{}, s.zombies[:i]...), s.zombies[i+1:]...)
				emit(n)
				return
			}
		}
	case "size":
		if o.N >= len(s.items) && o.N <= len(s.items)+len(s.zombies) && o.N <= capacity {
			emit(s)
		}
	case "final":
		// long after every lifetime: nothing may remain and nothing may be owed a report
		if len(s.items) == 0 && len(s.zombies) == 0 && o.N == 0 {
			emit(s)
		}
	}
}

func c28Describe(ops []porcupine.Operation) string {
	sorted := append([]porcupine.Operation{}, ops...)
	sort.Slice(sorted, func(i, j int) bool { return sorted[i].Call < sorted[j].Call })
	var b strings.Builder
	for _, op := range sorted {
		in := op.Input.(c28In)
		o := op.Output.(c28Out)
		fmt.Fprintf(&b, "[c%d %d-%d t=%v %s class%d k%d", op.ClientId, op.Call, op.Return, in.T, in.Kind, in.Class, in.Key)
		switch in.Kind {
		case "add", "bgevict":
			fmt.Fprintf(&b, " v%d", in.Val)
		case "find":
			fmt.Fprintf(&b, " -> %v v%d", o.Found, o.Val)
		case "delete":
			fmt.Fprintf(&b, " -> %v", o.Found)
		case "setexp":
			fmt.Fprintf(&b, " %v", in.Life)
		case "size", "final":
			fmt.Fprintf(&b, " -> %d", o.N)
		}
		if len(o.Evicted) > 0 {
			fmt.Fprintf(&b, " evicted=%v", o.Evicted)
		}
		b.WriteString("] ")
	}
	return b.String()
}
