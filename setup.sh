#!/bin/bash
# MANIFEST.setup_cmd: build the framework from files on disk only (offline) and warm the Go build cache.
set -e
cd "$(dirname "$0")"
export GOFLAGS=-mod=mod GOPROXY=off GOSUMDB=off GOTOOLCHAIN=local
mkdir -p .bin evidence replays
(cd tools/simrewrite && go1.26.8 build -o ../../.bin/simrewrite .)
# warm: std library (plain and race) and the repo's dependency closure, via one throw-away harness build
python3 - <<'PY'
import sys
sys.path.insert(0, '.')
from simlib import build as B, driver
from simlib.allconfigs import CONFIGS
for prop in sorted(CONFIGS):
    cfg = CONFIGS[prop]
    chk = cfg.get("driver", driver.Check)(cfg)
    with B.Build("setup-" + prop) as b:
        chk.build(b, race=False)
        if cfg.get("race", "none") != "none":
            chk.build(b, race=True)
print("setup ok")
PY
