"""Per-property check configuration (see DESIGN.md §3)."""

ALL_INTERNAL = ["internal"]

CONFIGS = {}

CONFIGS["C28"] = dict(
    prop="C28", engine="cache-lin", pkg="internal/caches", harness="C28",
    level="exploration",
    level_text="seeded search over operation histories x lock-granularity interleavings x fake-clock advances of the real "
               "caches package (with its real sweeper goroutines); every history is checked for linearizability against a "
               "small nondeterministic bounded-expiring-map model (porcupine) together with eviction accounting (exactly "
               "once, reported while the cache lock is free) and the size limit; a second batch runs under the race "
               "detector with scheduler hand-offs hidden from it. Sampling, not proof.",
    technique="deterministic simulation: seeded scheduler + fake clock, linearizability check (porcupine) of recorded histories",
    rewrite=dict(dirs=ALL_INTERNAL),
    race="also",
    quick=dict(runs=6000, per_proc=400, budget_s=240),
    thorough=dict(runs=400000, per_proc=2500, budget_s=1500),
    race_quick=dict(runs=800, per_proc=100, budget_s=120),
    race_thorough=dict(runs=30000, per_proc=500, budget_s=900),
    det_seeds=32,
    rule="seeded histories of add/find/delete/purge/purge-local/set-expiration/sweep/size/time-advance over 2 cache "
         "classes x 2-3 keys, 1-4 client tasks interleaved at every lock acquisition by the seeded scheduler, real "
         "sweeper goroutines on the fake clock; one run in four ends with a sweep-race scenario (an expired, not yet swept item; a "
         "sweep of its class concurrent with a fresh Add and lookups of the same key); in two thirds of the runs every mutex "
         "release is a scheduling point too; non-trivial = history with >=3 recorded operations; distinct = "
         "distinct hash of (scheduler decision sequence, observed history)",
    real=["internal/caches (all of it, incl. background expire goroutines)", "internal/cli/settings", "internal/cli/ui"],
    stubbed=["time: testing/synctest fake clock", "sync: scheduling shim over the real primitives"],
    assumptions=["Go 1.26.8 testing/synctest and race detector", "porcupine v1.3.0", "reference model in props/C28/harness.go"],
    required_probes=["bg_evictions", "linearizable_histories"],
)

CONFIGS["C36"] = dict(
    prop="C36", engine="fs-crash", pkg="tools/langlint", harness="C36",
    level="fault_enumeration", enumerated=True,
    level_text="exhaustive enumeration of crash points: the real lintFile/rewriteFile run on real files through a fault-point "
               "wrapper of the os package; for each of 36 configurations the rewrite is stopped once at every point between "
               "and inside its file-system operations (incl. torn writes) and the directory is inspected, then a later "
               "fault-free run must succeed and leave only the target. The space is finite and is covered completely "
               "(evidence exhaustive=true) under the process-crash model.",
    technique="deterministic fault injection: exhaustive crash-point enumeration over a simulated file-system seam",
    rewrite=dict(dirs=["tools/langlint"], sync=False, gostmt=False, osfiles=["tools/langlint/lint.go"]),
    sim_packages=("sim", "sync", "simrun", "simfs"),
    race="none",
    quick=dict(runs=72, per_proc=5, budget_s=300),
    thorough=dict(runs=72, per_proc=5, budget_s=900),
    det_seeds=12,
    rule="exhaustive: every configuration (3 content sizes x 3 file modes x 4 stale-file layouts) x every crash point of "
         "the rewrite (before the first and after each file-system operation; inside each Write after 0, 1, half, n-1 "
         "bytes); second half of the index space repeats the configurations with EIO/ENOSPC/EACCES injected at each "
         "operation (informational). One evaluation = one configuration with all its crash points; distinct = distinct "
         "(configuration, operation sequence); probes.crash_points counts the individual crash executions",
    real=["tools/langlint lintFile/rewriteFile/Format (real code, real files in a scratch directory)"],
    stubbed=["os: simfs fault-point wrapper over the real os package (lint.go only)"],
    assumptions=["process-crash model: every completed file-system operation persists, a crash stops the program between "
                 "or inside operations; power-loss reordering is not modelled (C36 speaks of the process stopping)"],
    required_probes=["crash_points", "torn-write"],
    required_probes_quick=["crash_points", "torn-write"],
)

CACHES_EXPORT = ("props/common/caches_export.go", "internal/caches/zz_verifsim_export.go")

CONFIGS["C23"] = dict(
    prop="C23", engine="oauth-race", pkg="internal/server/oauth/authserver", harness="C23",
    level="exploration",
    level_text="seeded search over schedules: 2-6 concurrent token requests (real authserver.TokenHandler, real caches) "
               "presenting the same authorization code or refresh token, interleaved by the seeded scheduler at every lock "
               "acquisition (so the gap between cache lookup and deletion is explored by construction), plus PKCE verifier "
               "variants and rotated refresh tokens over three phases; oracle: per credential at most one 200 response "
               "carrying an access token, and PKCE success only with the matching verifier. Also run under the race detector.",
    technique="deterministic simulation: seeded scheduler over concurrent request tasks, history oracle (at-most-once)",
    rewrite=dict(dirs=ALL_INTERNAL),
    extra_files=[CACHES_EXPORT],
    race="also",
    quick=dict(runs=6000, per_proc=300, budget_s=240),
    thorough=dict(runs=600000, per_proc=3000, budget_s=1500),
    race_quick=dict(runs=600, per_proc=75, budget_s=150),
    race_thorough=dict(runs=30000, per_proc=500, budget_s=900),
    det_seeds=32,
    rule="seeded batches of token requests in 3 phases (phase 0: code exchanges mostly of one code with verifier/client/"
         "redirect variants; phases 1-2: refreshes of pre-issued, freshly issued and rotated refresh tokens), one task per "
         "request; non-trivial = some credential presented by >=2 requests; distinct = distinct (scheduler decision sequence, "
         "per-request outcome) hash",
    real=["internal/server/oauth/authserver TokenHandler, consumeCode/consumeRefreshToken, verifyPKCE, JWT creation (real ECDSA key)",
          "internal/caches incl. sweepers", "internal/router.Session"],
    stubbed=["time: synctest fake clock", "sync: scheduling shim", "bcrypt cost of the confidential client's secret hash = MinCost (harness-made fixture)"],
    assumptions=["requests enter at TokenHandler (the router in front of it is not part of this engine)"],
    required_probes=["credential_presented_concurrently_or_repeatedly", "runs_with_concurrent_requests", "successful_exchanges"],
)
