"""Per-property check configuration (see DESIGN.md §3)."""

ALL_INTERNAL = ["internal"]

CONFIGS = {}

CONFIGS["C28"] = dict(
    prop="C28", engine="cache-lin", pkg="internal/caches", harness="C28",
    level="exploration",
    rewrite=dict(dirs=ALL_INTERNAL),
    race="also",
    quick=dict(runs=6000, per_proc=400, budget_s=240),
    thorough=dict(runs=400000, per_proc=2500, budget_s=1500),
    race_quick=dict(runs=800, per_proc=100, budget_s=120),
    race_thorough=dict(runs=30000, per_proc=500, budget_s=900),
    det_seeds=32,
    rule="seeded histories of add/find/delete/purge/purge-local/set-expiration/sweep/size/time-advance over 2 cache "
         "classes x 2-3 keys, 1-4 client tasks interleaved at every lock acquisition by the seeded scheduler, real "
         "sweeper goroutines on the fake clock; non-trivial = history with >=3 recorded operations; distinct = "
         "distinct hash of (scheduler decision sequence, observed history)",
    real=["internal/caches (all of it, incl. background expire goroutines)", "internal/cli/settings", "internal/cli/ui"],
    stubbed=["time: testing/synctest fake clock", "sync: scheduling shim over the real primitives"],
    assumptions=["Go 1.26.8 testing/synctest and race detector", "porcupine v1.3.0", "reference model in props/C28/harness.go"],
    required_probes=["bg_evictions", "linearizable_histories"],
)
