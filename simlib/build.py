"""Build pipeline: current /repo working tree -> instrumented test binary (never writes /repo).

See DESIGN.md §2.1. Exit code 2 (HarnessError) for anything that is not a property verdict.
"""
import json
import os
import shutil
import subprocess
import sys
import time

REPO = os.environ.get("VERIF_REPO", "/repo")
VERIF = os.path.dirname(os.path.dirname(os.path.abspath(__file__)))
GO = "go1.26.8"
SCRATCH_ROOT = os.environ.get("VERIF_SCRATCH", "/var/tmp")


class HarnessError(Exception):
    pass


def goenv(extra=None):
    env = dict(os.environ)
    env.update({
        "GOFLAGS": "-mod=mod", "GOPROXY": "off", "GOSUMDB": "off", "GOTOOLCHAIN": "local",
        "GONOSUMDB": "*", "GONOSUMCHECK": "1", "CGO_ENABLED": "1",
    })
    if extra:
        env.update(extra)
    return env


def run(cmd, cwd=None, env=None, timeout=1800, check=True):
    p = subprocess.run(cmd, cwd=cwd, env=env or goenv(), stdout=subprocess.PIPE, stderr=subprocess.STDOUT,
                       text=True, timeout=timeout)
    if check and p.returncode != 0:
        raise HarnessError("command failed (%d): %s\n%s" % (p.returncode, " ".join(cmd), p.stdout[-6000:]))
    return p.stdout


def tool_bin():
    """Build (once) the simrewrite tool into /verif/.bin (ignored by git)."""
    bindir = os.path.join(VERIF, ".bin")
    os.makedirs(bindir, exist_ok=True)
    exe = os.path.join(bindir, "simrewrite")
    src = os.path.join(VERIF, "tools", "simrewrite", "main.go")
    if not os.path.exists(exe) or os.path.getmtime(exe) < os.path.getmtime(src):
        run([GO, "build", "-o", exe, "."], cwd=os.path.join(VERIF, "tools", "simrewrite"))
    return exe


class Build:
    """One scratch build directory. Use as a context manager; removed on exit."""

    def __init__(self, name, keep=False):
        self.dir = os.path.join(SCRATCH_ROOT, "verifsim-%s-%d" % (name, os.getpid()))
        self.keep = keep
        self.overlay = {}
        self.stats = {}

    def __enter__(self):
        shutil.rmtree(self.dir, ignore_errors=True)
        os.makedirs(self.dir)
        os.makedirs(os.path.join(self.dir, "home"))
        return self

    def __exit__(self, *a):
        if not self.keep:
            shutil.rmtree(self.dir, ignore_errors=True)
        if getattr(self, "shm", None):
            shutil.rmtree(self.shm, ignore_errors=True)

    # ---- R0 generated sources
    def generate(self, libzip=False):
        gen = os.path.join(self.dir, "gen")
        os.makedirs(gen, exist_ok=True)
        msg = os.path.join(gen, "messages.go")
        run([GO, "run", "../../tools/lang", "-c", "-p", "languages", "-s", msg],
            cwd=os.path.join(REPO, "internal", "i18n"))
        self.overlay[os.path.join(REPO, "internal/i18n/messages.go")] = msg
        if libzip:
            z = os.path.join(gen, "lib.zip")
            run([GO, "run", "../../../tools/zipgo", "../../../lib", "--output", z, "--digest", "--omit",
                 "https-server.crt,https-server.key"], cwd=os.path.join(REPO, "internal", "cli", "app"))
            self.overlay[os.path.join(REPO, "internal/cli/app/lib.zip")] = z

    # ---- R1..R7
    def rewrite(self, dirs, sync=True, gostmt=True, step=False, sql=(), osfiles=(), maporder=(), consts=(), chan=()):
        cmd = [tool_bin(), "-repo", REPO, "-out", self.dir]
        if sync:
            cmd.append("-sync")
        if gostmt:
            cmd.append("-gostmt")
        if step:
            cmd.append("-step")
        if sql:
            cmd += ["-sql", ",".join(sql)]
        if osfiles:
            cmd += ["-os", ",".join(osfiles)]
        if maporder:
            cmd += ["-maporder", ",".join(maporder)]
        if consts:
            cmd += ["-const", ",".join(consts)]
        if chan:
            cmd += ["-chan", ",".join(chan)]
        cmd += list(dirs)
        out = run(cmd)
        self.stats = json.loads(out.strip().splitlines()[-1])
        with open(os.path.join(self.dir, "rewrite.json")) as f:
            self.overlay.update(json.load(f))

    # ---- virtual packages internal/verifsim/*
    def add_sim_packages(self, pkgs=("sim", "sync", "simrun")):
        for p in pkgs:
            src = os.path.join(VERIF, "sim", p)
            for fn in sorted(os.listdir(src)):
                if fn.endswith(".go"):
                    self.overlay[os.path.join(REPO, "internal/verifsim", p, fn)] = os.path.join(src, fn)

    # ---- R5 in-package harness files
    def add_harness(self, prop_dir, pkg_rel):
        src = os.path.join(VERIF, "props", prop_dir)
        n = 0
        for fn in sorted(os.listdir(src)):
            if fn.endswith(".go"):
                base = fn[:-3]
                if not base.endswith("_test"):
                    base += "_test"
                self.overlay[os.path.join(REPO, pkg_rel, "zz_verifsim_" + base + ".go")] = os.path.join(src, fn)
                n += 1
        if n == 0:
            raise HarnessError("no harness files in " + src)

    def write_overlay(self):
        p = os.path.join(self.dir, "overlay.json")
        with open(p, "w") as f:
            json.dump({"Replace": self.overlay}, f, indent=1)
        # scratch go.mod with porcupine
        with open(os.path.join(REPO, "go.mod")) as f:
            mod = f.read()
        mod += "\nrequire github.com/anishathalye/porcupine v1.3.0\n"
        with open(os.path.join(self.dir, "go.mod"), "w") as f:
            f.write(mod)
        sums = os.path.join(REPO, "go.sum")
        if os.path.exists(sums):
            shutil.copy(sums, os.path.join(self.dir, "go.sum"))
        return p

    def test_binary(self, pkg_rel, name="sim.test", race=False, tags=()):
        ov = self.write_overlay()
        exe = os.path.join(self.dir, name)
        cmd = [GO, "test", "-c", "-vet=off", "-overlay", ov, "-modfile", os.path.join(self.dir, "go.mod"), "-o", exe]
        if race:
            cmd.append("-race")
        if tags:
            cmd += ["-tags", ",".join(tags)]
        cmd.append("./" + pkg_rel)
        t0 = time.time()
        run(cmd, cwd=REPO, timeout=3600)
        if not os.path.exists(exe):
            raise HarnessError("test binary not produced for " + pkg_rel)
        return exe, time.time() - t0

    def run_env(self, extra=None):
        home = os.path.join(self.dir, "home")
        env = dict(os.environ)
        # run-time scratch (SQLite files, user stores) lives on a memory file system when there is one: the
        # simulated runs create and delete thousands of small database files and fsync dominates otherwise
        tmp = os.path.join(self.dir, "tmp")
        if os.path.isdir("/dev/shm") and os.access("/dev/shm", os.W_OK) and not os.environ.get("VERIF_NO_SHM"):
            self.shm = os.path.join("/dev/shm", os.path.basename(self.dir))
            tmp = os.path.join(self.shm, "tmp")
        env.update({"HOME": home, "EGO_CONFIG_DIR": os.path.join(home, ".ego"), "TMPDIR": tmp,
                    "EGO_PATH": os.path.join(self.dir, "egopath")})
        os.makedirs(env["TMPDIR"], exist_ok=True)
        if extra:
            env.update(extra)
        return env


def repo_is_dirty_guard():
    """The checks never write into /repo; verify afterwards that we did not."""
    out = subprocess.run(["git", "-C", REPO, "status", "--porcelain"], stdout=subprocess.PIPE, text=True).stdout
    return out
