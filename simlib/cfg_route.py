from .configs import CONFIGS, ALL_INTERNAL, CACHES_EXPORT

CONFIGS["C32"] = dict(
    prop="C32", engine="route-order", pkg="internal/commands", harness="C32",
    level="exploration",
    level_text="seeded search over (route table x request x iteration order x registration order): Go's randomised map "
               "iteration in Router.FindRoute is put behind a seam (rule R4) so an order-seed decides it exactly; the "
               "server's real route table (from commands.defineStaticRoutes) and generated tables with variables, glob "
               "tails, trailing slashes, root and mixed methods are resolved for derived request paths under 8 (thorough: 32) "
               "iteration orders and shuffled registration orders; all resolutions of a request must agree, and the chosen "
               "route must have the fewest variables among the routes that match on their own.",
    technique="deterministic simulation of an unseeded nondeterminism source: map iteration order behind a seeded seam, differential over orders",
    rewrite=dict(dirs=ALL_INTERNAL, maporder=["internal/router/router.go"]),
    extra_files=[CACHES_EXPORT, ("props/common/router_routes_export.go", "internal/router/zz_verifsim_routes_export.go")],
    libzip=True,
    race="none",
    quick=dict(runs=3000, per_proc=200, budget_s=240),
    thorough=dict(runs=200000, per_proc=2000, budget_s=1500),
    det_seeds=24,
    rule="patterns include trailing slashes, /* tails and the glob variable {{name...}} (instantiated with 1-3 segments); tables: the real one (1 case in 5) or 2-8 generated patterns over {a,b,c,tables,{{x}},{{y}},{{z}}} with optional "
         "trailing slash / glob tail / root, methods GET/POST/any; 12-23 requests per table derived from the patterns "
         "(instantiate, perturb a segment, add/remove trailing slash, empty segment, extra segment, other method); "
         "non-trivial = >=1 request; distinct = distinct (table, request list, results) hash",
    real=["router.NewRouter/New/FindRoute", "commands.defineStaticRoutes (the shipped route table)"],
    stubbed=["map iteration order in router.go: sim.MapKeys seam (rule R4)"],
    assumptions=["service routes added at run time from lib/services are not part of the 'real table' case"],
    required_probes=["real_route_table", "resolved_200", "requests_with_several_candidates_checked"],
)
