from .configs import CONFIGS, ALL_INTERNAL, CACHES_EXPORT

CONFIGS["C30"] = dict(
    prop="C30", engine="store-hist", pkg="internal/verifsim/storeharness", harness="C30",
    level="exploration",
    level_text="seeded operation histories (insert / read with 0-3 equality and comparison filters on string, int, bool, uuid "
               "and float columns / update / delete / key-addressed read, update, delete / sort / close-and-reopen / "
               "alternating between two handles on one file) against the real resources package on a real SQLite file, "
               "compared operation by operation with an in-memory table (multiset of records, delete counts, ordering when a "
               "sort is set). Honest note: there is no schedule or fault in this statement; the simulator contributes only "
               "the durable-state dimension (reopen, second handle).",
    technique="reference-model refinement over seeded histories with reopen (durable state only survives)",
    rewrite=dict(dirs=ALL_INTERNAL),
    race="none",
    quick=dict(runs=2500, per_proc=150, budget_s=240),
    thorough=dict(runs=150000, per_proc=1500, budget_s=1500),
    det_seeds=24,
    rule="histories of 10-39 operations over a record type with string/int/bool/uuid/[]string/float fields, value domains "
         "with quotes, empty and non-ASCII strings, negative and 2^40 integers, the zero UUID; with and without a primary key; filter lists of 0-3 "
         "equality/comparison filters, half of them with a nil *Filter at some position (skipped by the store; the server's callers pass such lists); "
         "non-trivial = >=4 executed operations; distinct = distinct history hash",
    real=["resources.Open/CreateIf/Insert/Read/ReadOne/Update/UpdateOne/Delete/DeleteOne/Sort/filters (reflection-driven SQL generation)", "database/sql + modernc SQLite on a real file"],
    stubbed=[],
    assumptions=["filters name existing columns (the statement speaks of equality and comparison filters; an invalid column name is a programming error outside it)",
                 "only the generic record type is driven, not the four production record types"],
    required_probes=["selective_reads", "sorted_reads", "reopens", "handle_switches"],
)
