"""Import every per-property configuration module; use `from simlib.allconfigs import CONFIGS`."""
import glob
import importlib
import os

from .configs import CONFIGS  # noqa: F401

for _p in sorted(glob.glob(os.path.join(os.path.dirname(__file__), "cfg_*.py"))):
    importlib.import_module("simlib." + os.path.basename(_p)[:-3])
