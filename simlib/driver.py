"""Generic driver: build -> determinism self-test -> fan out seeds -> triage -> shrink -> confirm -> evidence."""
import concurrent.futures
import fnmatch
import glob
import hashlib
import json
import os
import re
import subprocess
import sys
import time

from . import build as B

VERIF = B.VERIF
NCPU = min(16, os.cpu_count() or 4)


def known_findings():
    """Parse /verif/KNOWN_FINDINGS.txt -> (known: {prop: [(sig, text)]}, fixed: [...])."""
    known, fixed = {}, []
    p = os.path.join(VERIF, "KNOWN_FINDINGS.txt")
    if os.path.exists(p):
        for line in open(p):
            line = line.strip()
            if not line or line.startswith("#"):
                continue
            m = re.match(r"known:\s+property=(\S+)\s+sig=(\S+)\s+(.*)", line)
            if m:
                known.setdefault(m.group(1), []).append((m.group(2), m.group(3)))
                continue
            if line.startswith("fixed:"):
                fixed.append(line)
    return known, fixed


def run_proc(exe, env, mode, out, extra, timeout, cpu=None, memlimit_kb=6_000_000):
    e = dict(env)
    e.update({"VERIF_MODE": mode, "VERIF_OUT": out})
    e.update({k: str(v) for k, v in extra.items()})
    cmd = [exe, "-test.run", "^TestVerifSim$", "-test.timeout", "%ds" % (timeout + 60)]
    if cpu:
        cmd += ["-test.cpu", str(cpu)]
    pre = "ulimit -v %d; exec " % memlimit_kb if memlimit_kb else "exec "
    try:
        p = subprocess.run(["bash", "-c", pre + " ".join('"%s"' % c for c in cmd)], env=e, stdout=subprocess.PIPE,
                           stderr=subprocess.STDOUT, text=True, timeout=timeout + 120, cwd=os.path.dirname(exe))
    except subprocess.TimeoutExpired as ex:
        return None, "watchdog: process exceeded %ds\n%s" % (timeout + 120, (ex.stdout or "")[-3000:] if isinstance(ex.stdout, str) else "")
    if not os.path.exists(out):
        return None, "no result file (exit %d)\n%s" % (p.returncode, p.stdout[-8000:])
    with open(out) as f:
        try:
            res = json.load(f)
        except Exception as ex:  # noqa
            return None, "bad result file: %s" % ex
    return res, p.stdout


def merge_summaries(parts):
    m = dict(parts[0])
    for p in parts[1:]:
        for k in ("runs", "nontrivial", "steps", "sim_ns", "wall_ns"):
            m[k] = m.get(k, 0) + p.get(k, 0)
        m["hashes"] = (m.get("hashes") or []) + (p.get("hashes") or [])
        for k in ("probes", "faults", "inconclusive", "seed_hash"):
            d = dict(m.get(k) or {})
            for kk, vv in (p.get(k) or {}).items():
                d[kk] = (d.get(kk, 0) + vv) if isinstance(vv, (int, float)) else vv
            m[k] = d
        m["violations"] = (m.get("violations") or []) + (p.get("violations") or [])
        m["samples"] = (m.get("samples") or []) + (p.get("samples") or [])
        if p.get("harness_error"):
            m["harness_error"] = p["harness_error"]
    m.pop("next", None)
    return m


class Check:
    """Subclass/instantiate per property. cfg keys:
    prop, engine, pkg (package dir rel. to repo), harness (dir under props/), level, rule,
    rewrite: dict(dirs=[...], step=bool, sql=[...], osfiles=[...], maporder=[...], consts=[...], chan=[...])
    libzip: bool, race: 'none'|'also'|'only', quick: dict(runs, per_proc, budget_s), thorough: {...},
    race_quick/race_thorough: dict(runs, per_proc), real/stubbed component lists, assumptions,
    required_probes: [names] (must be >0 in thorough), det_seeds: n
    """

    def __init__(self, cfg):
        self.cfg = cfg
        self.prop = cfg["prop"]

    # ------------------------------------------------------------------ build
    def build(self, b, race=False):
        cfg = self.cfg
        b.generate(libzip=cfg.get("libzip", False))
        rw = dict(cfg.get("rewrite", {}))
        dirs = rw.pop("dirs", ["internal"])
        b.rewrite(dirs, **rw)
        b.add_sim_packages(cfg.get("sim_packages", ("sim", "sync", "simrun")))
        b.add_harness(cfg["harness"], cfg["pkg"])
        for extra_dir, extra_pkg in cfg.get("extra_harness", []):
            b.add_harness(extra_dir, extra_pkg)
        for src, dst in cfg.get("extra_files", []):
            # harness-only NON-test files added to other repo packages (reset/export helpers)
            b.overlay[os.path.join(B.REPO, dst)] = os.path.join(VERIF, src)
        exe, secs = b.test_binary(cfg["pkg"], name="sim-race.test" if race else "sim.test", race=race)
        return exe, secs

    # ------------------------------------------------------------------ batches
    def fan_out(self, exe, env, base_seed, runs, per_proc, tier, budget_s, mode="batch", cpu=None, extra_env=None, workers=None):
        jobs = []
        i = 0
        k = 0
        outdir = os.path.join(os.path.dirname(exe), "out-%s-%d" % (mode, int(time.time() * 1000) % 100000))
        os.makedirs(outdir, exist_ok=True)
        while i < runs:
            n = min(per_proc, runs - i)
            jobs.append((i, n, os.path.join(outdir, "b%05d.json" % k)))
            i += n
            k += 1
        deadline = time.time() + budget_s
        results, errors = [], []

        def one(job):
            frm, n, out = job
            left = deadline - time.time()
            if left < 5:
                return ("skipped", job, None)
            extra = {"VERIF_BASESEED": base_seed, "VERIF_FROM": frm, "VERIF_COUNT": n, "VERIF_TIER": tier,
                     "VERIF_BUDGET_S": int(left)}
            if extra_env:
                extra.update(extra_env)
            res, log = run_proc(exe, env, mode, out, extra, timeout=int(left) + 30, cpu=cpu)
            # a batch process stops early after a run that left the process tainted (simulated fatal
            # error / deadlock: abandoned tasks may hold repo locks); continue in fresh processes
            parts = [res]
            hops = 0
            while res is not None and res.get("next") and res["next"] < frm + n and hops < 50:
                hops += 1
                nxt = res["next"]
                left = deadline - time.time()
                if left < 5:
                    break
                extra2 = dict(extra, VERIF_FROM=nxt, VERIF_COUNT=frm + n - nxt, VERIF_BUDGET_S=int(left))
                res, log = run_proc(exe, env, mode, out + ".%d" % hops, extra2, timeout=int(left) + 30, cpu=cpu)
                parts.append(res)
            if len(parts) > 1 and all(p is not None for p in parts):
                res = merge_summaries(parts)
            return ("done", job, (res, log))

        with concurrent.futures.ThreadPoolExecutor(max_workers=workers or NCPU) as ex:
            for status, job, payload in ex.map(one, jobs):
                if status == "skipped":
                    continue
                res, log = payload
                if res is None:
                    errors.append("batch from=%d: %s" % (job[0], log))
                elif res.get("harness_error"):
                    errors.append("batch from=%d: %s" % (job[0], res["harness_error"]))
                    results.append(res)
                else:
                    results.append(res)
        return results, errors

    # ------------------------------------------------------------------ determinism self-test
    def determinism(self, exe, env, base_seed, tier, nseeds, thorough):
        """Same seeds in several fresh processes at different GOMAXPROCS, alone and in batches."""
        runs = []
        cpus = [1, 16] if not thorough else [1, 4, 16]
        layouts = []
        for cpu in cpus:
            layouts.append((cpu, nseeds))                # one batch
            layouts.append((cpu, max(1, nseeds // 4)))   # smaller batches (different position in process)
        if thorough:
            layouts.append((16, 1))                      # every seed alone in its own process
        tables = []
        errs = []
        for cpu, per in layouts:
            res, e = self.fan_out(exe, env, base_seed, nseeds, per, tier, 600, mode="hashes", cpu=cpu)
            errs += e
            tab = {}
            for r in res:
                tab.update(r.get("seed_hash") or {})
            tables.append(((cpu, per), tab))
        ref = tables[0][1]
        mismatches = []
        for (lay, tab) in tables[1:]:
            for s, h in ref.items():
                if s in tab and tab[s] != h:
                    mismatches.append("seed %s: %s (layout %s) vs %s (layout %s)" % (s, h, tables[0][0], tab[s], lay))
        nproc = sum((nseeds + per - 1) // per for _, per in layouts)
        return {"seeds": len(ref), "layouts": [list(l) for l, _ in tables], "processes": nproc,
                "mismatches": len(mismatches)}, mismatches, errs

    # ------------------------------------------------------------------ violations
    def confirm(self, exe, env, case, workdir, tag):
        """Shrink in one process, then replay the minimised case in two fresh processes."""
        cpath = os.path.join(workdir, "case-%s.json" % tag)
        with open(cpath, "w") as f:
            json.dump(case, f)
        mpath = os.path.join(workdir, "min-%s.json" % tag)
        vio = str(case.get("violation", ""))
        if vio.startswith("fatal/") or vio == "deadlock":
            # The run ends with its tasks abandoned mid-flight (possibly holding repo locks), which
            # taints the process: no in-process shrinking. The case and its recorded schedule are
            # replayed in two fresh processes and must give exactly the same class.
            for k in range(2):
                o, log = run_proc(exe, env, "replay", os.path.join(workdir, "rp-%s-%d.json" % (tag, k)), {"VERIF_CASE": cpath}, timeout=600, cpu=[1, 16][k])
                if o is None:
                    return None, "replay failed: " + str(log)[-2000:]
                if o.get("violation") != vio:
                    return None, "case does not replay (want %r got %r)" % (vio, o.get("violation"))
            return dict(case, detail=o.get("detail", case.get("detail", "")), log=(o.get("log") or [])[-60:],
                        note="fatal-error/deadlock class: replayed in fresh processes, not minimised (see DESIGN.md)"), None
        if str(case.get("violation", "")).startswith("race/"):
            # Race-detector classes are not shrunk: which of several racing access pairs is reported
            # first depends on the detector's shadow state, i.e. on what ran earlier in the process.
            # The case (operations + recorded schedule) is replayed in fresh processes instead; the
            # class reported is the one the fresh replays give.
            sig = None
            for k in range(2):
                o, log = run_proc(exe, env, "replay", os.path.join(workdir, "rp-%s-%d.json" % (tag, k)), {"VERIF_CASE": cpath}, timeout=600, cpu=[1, 16][k])
                if o is None:
                    return None, "replay failed: " + str(log)[-2000:]
                if not str(o.get("violation", "")).startswith("race/"):
                    return None, "race report does not replay (got %r)" % o.get("violation")
                if sig is None:
                    sig, detail = o["violation"], o.get("detail", "")
            case = dict(case, violation=sig, detail=detail, note="race-detector report; not minimised (see DESIGN.md)")
            return case, None
        mini, log = run_proc(exe, env, "shrink", mpath, {"VERIF_CASE": cpath, "VERIF_TIER": "quick"}, timeout=900)
        if mini is None:
            return None, "shrink failed: " + str(log)[-2000:]
        if "did not reproduce" in (mini.get("note") or ""):
            return None, "not reproducible in a fresh process: " + mini.get("note", "")
        with open(mpath, "w") as f:
            json.dump(mini, f, indent=1)
        want = mini.get("violation")
        for k in range(2):
            o, log = run_proc(exe, env, "replay", os.path.join(workdir, "rp-%s-%d.json" % (tag, k)),
                              {"VERIF_CASE": mpath}, timeout=600, cpu=[1, 16][k])
            if o is None:
                return None, "replay failed: " + str(log)[-2000:]
            if o.get("violation") != want:
                return None, "minimised case does not replay (want %r got %r)" % (want, o.get("violation"))
        return mini, None

    def replay_file(self, path, keep=False):
        """check.py <prop> --replay file : rebuild and execute one replay file."""
        with B.Build(self.prop + "-replay", keep=keep) as b:
            try:
                is_race = str(json.load(open(path)).get("violation", "")).startswith("race/")
            except Exception:
                is_race = False
            exe, _ = self.build(b, race=is_race)
            env = b.run_env(self.cfg.get("env"))
            if is_race:
                env = dict(env, GORACE="halt_on_error=0 exitcode=0 log_path=" + os.path.join(b.dir, "race"),
                           VERIF_RACELOG=os.path.join(b.dir, "race"))
            o, log = run_proc(exe, env, "replay", os.path.join(b.dir, "replay-out.json"), {"VERIF_CASE": os.path.abspath(path)}, timeout=900)
            if o is None:
                print("replay failed:", log)
                return 2
            print(json.dumps({k: v for k, v in o.items() if k != "log"}, indent=1))
            for line in (o.get("log") or [])[-80:]:
                print("  |", line)
            if o.get("violation"):
                print("VIOLATION property=%s replay=%s" % (self.prop, path))
                return 1
            return 0

    # ------------------------------------------------------------------ main entry
    def main(self, tier, seed):
        cfg = self.cfg
        t0 = time.time()
        thorough = tier == "thorough"
        tc = cfg["thorough"] if thorough else cfg["quick"]
        known, _fixed = known_findings()
        known = known.get(self.prop, [])
        problems = []          # harness problems -> exit 2
        violations = []        # (sig, replay_path, detail)
        known_hits = {}
        agg = {"runs": 0, "nontrivial": 0, "hashes": set(), "probes": {}, "faults": {}, "steps": 0, "sim_ns": 0,
               "wall_ns": 0, "inconclusive": {}, "samples": []}
        det = None
        race_info = None
        build_s = {}
        dirty_before = B.repo_is_dirty_guard()
        with B.Build(self.prop) as b:
            try:
                plain_exe = race_exe = None
                mode = cfg.get("race", "none")
                if mode != "only":
                    plain_exe, build_s["plain"] = self.build(b, race=False)
                if mode in ("also", "only") and (thorough or cfg.get("race_in_quick", True)):
                    race_exe, build_s["race"] = self.build(b, race=True)
            except B.HarnessError as ex:
                print("HARNESS-ERROR build:", ex)
                return 2
            env = b.run_env(cfg.get("env"))
            race_env = dict(env, GORACE="halt_on_error=0 exitcode=0 log_path=" + os.path.join(b.dir, "race"),
                            VERIF_RACELOG=os.path.join(b.dir, "race"))
            envs = {plain_exe: env, race_exe: race_env}
            main_exe = plain_exe or race_exe
            total = None
            if cfg.get("enumerated"):
                o, log = run_proc(main_exe, env, "total", os.path.join(b.dir, "total.json"), {"VERIF_TIER": tier}, timeout=120)
                if o is None or o.get("total", -1) < 0:
                    problems.append("cannot obtain the size of the enumerated space: %s" % str(log)[-500:])
                else:
                    total = o["total"]
                    tc = dict(tc, runs=total)
            # 1. determinism self-test
            nseeds = cfg.get("det_seeds", 24) * (3 if thorough else 1)
            if total is not None:
                nseeds = min(nseeds, total)
            det, mism, errs = self.determinism(main_exe, env, seed, tier, nseeds, thorough)
            problems += errs
            det_problem = None
            if mism:
                # Not fatal yet: a change to the repository can introduce process-wide state that the
                # harness does not know how to reset, which makes runs depend on their predecessors in
                # the process. Violations are still believed if (and only if) their minimised cases
                # replay in two fresh processes; without any confirmed violation this ends in exit 2.
                det_problem = "determinism self-test failed: " + "; ".join(mism[:5])
            # 2. race self-test (fixture must be detected) if a race binary is used
            race_self = None
            if race_exe and not problems:
                lp = os.path.join(b.dir, "raceself")
                o, log = run_proc(race_exe, env, "raceself", os.path.join(b.dir, "raceself.json"), {"GORACE": "halt_on_error=0 exitcode=0 log_path=" + lp, "VERIF_RACELOG": lp}, timeout=120)
                txt = "".join(open(p, errors="replace").read() for p in glob.glob(lp + ".*"))
                race_self = {"racy_fixture_reported": "raceFixtureRacy" in txt, "guarded_fixture_silent": "raceFixtureClean" not in txt}
                if not (race_self["racy_fixture_reported"] and race_self["guarded_fixture_silent"]):
                    problems.append("race self-test failed: %s" % race_self)
            cand = []
            if not problems:
                batches = []
                if plain_exe:
                    batches.append(("plain", plain_exe, tc["runs"], tc.get("per_proc", 200), tc.get("budget_s", 600), None))
                if race_exe:
                    rc = cfg.get("race_thorough" if thorough else "race_quick", {"runs": 100, "per_proc": 25})
                    batches.append(("race", race_exe, rc["runs"], rc.get("per_proc", 25), rc.get("budget_s", tc.get("budget_s", 600)), None))
                for name, exe, runs, per_proc, budget, extra in batches:
                    # different base seed for the race batch so that it adds schedules
                    bs = seed if name == "plain" else seed + 7919
                    results, errs = self.fan_out(exe, envs[exe], bs, runs, per_proc, tier, budget, extra_env=extra)
                    problems += errs
                    for r in results:
                        agg["runs"] += r.get("runs", 0)
                        agg["nontrivial"] += r.get("nontrivial", 0)
                        agg["hashes"].update(r.get("hashes") or [])
                        for k, v in (r.get("probes") or {}).items():
                            agg["probes"][k] = agg["probes"].get(k, 0) + v
                        for k, v in (r.get("faults") or {}).items():
                            agg["faults"][k] = agg["faults"].get(k, 0) + v
                        for k, v in (r.get("inconclusive") or {}).items():
                            agg["inconclusive"][k] = agg["inconclusive"].get(k, 0) + v
                        agg["steps"] += r.get("steps", 0)
                        agg["sim_ns"] += r.get("sim_ns", 0)
                        agg["wall_ns"] += r.get("wall_ns", 0)
                        if len(agg["samples"]) < 3:
                            agg["samples"] += (r.get("samples") or [])[:1]
                        for v in r.get("violations") or []:
                            cand.append((name, exe, v))
                    if name == "race":
                        # reports are attributed to individual runs inside the test binary (simrun/race.go)
                        # and arrive as ordinary violations of class race/<frames>; this is only a count
                        race_info = self.collect_race_reports(b.dir)
            # 3. corpus of committed replay files (regressions)
            corpus = sorted(glob.glob(os.path.join(VERIF, "replays", "corpus", self.prop + "-*.json")))
            corpus_run = 0
            if not problems and main_exe:
                for path in corpus:
                    cexe = main_exe
                    try:
                        if str(json.load(open(path)).get("violation", "")).startswith("race/") and race_exe:
                            cexe = race_exe
                    except Exception:
                        pass
                    o, log = run_proc(cexe, envs[cexe], "replay", os.path.join(b.dir, "corpus-out.json"), {"VERIF_CASE": path}, timeout=300)
                    corpus_run += 1
                    if o is None:
                        problems.append("corpus replay %s failed: %s" % (path, str(log)[-500:]))
                    elif o.get("violation"):
                        case = json.load(open(path))
                        case["violation"], case["detail"] = o["violation"], o.get("detail", "")
                        cand.append(("corpus", cexe, case))
            # 4. triage: group by class signature, shrink + confirm one per class
            by_sig = {}
            for name, exe, v in cand:
                by_sig.setdefault(v.get("violation"), []).append((name, exe, v))
            repdir = os.environ.get("VERIF_REPLAY_DIR") or os.path.join(VERIF, "replays")
            os.makedirs(repdir, exist_ok=True)
            for sig, lst in sorted(by_sig.items()):
                name, exe, v = lst[0]
                mini = err = None
                for (nm, ex, vv) in lst[:3]:
                    mini, err = self.confirm(ex, envs[ex], vv, b.dir, hashlib.sha1((str(sig) + str(vv.get("seed"))).encode()).hexdigest()[:8])
                    if mini is not None:
                        break
                if mini is None:
                    problems.append("violation class %s seen (%d runs) but could not be confirmed: %s" % (sig, len(lst), err))
                    continue
                msig = mini.get("violation")
                if msig in [v[0] for v in violations]:
                    continue  # several batch-time classes resolved to one class on replay
                kf = [k for k in known if fnmatch.fnmatchcase(str(msig), k[0])]
                if kf:
                    known_hits[msig] = kf[0][1]
                    continue
                path = os.path.join(repdir, "%s-%s-%s.json" % (self.prop, mini.get("seed"), hashlib.sha1(json.dumps(mini, sort_keys=True).encode()).hexdigest()[:10]))
                json.dump(mini, open(path, "w"), indent=1)
                violations.append((msig, path, (mini.get("detail") or "")[:400]))
            dirty = B.repo_is_dirty_guard() != dirty_before
        wall = time.time() - t0
        # required probes (reach)
        if not problems and not violations:
            for pn in cfg.get("required_probes", []) if thorough else cfg.get("required_probes_quick", []):
                tot = agg["probes"].get(pn, 0) + agg["faults"].get(pn, 0)
                if tot == 0:
                    problems.append("reach failure: probe %r never fired" % pn)
        ev = {
            "property_id": self.prop, "tier": tier, "seed": int(seed), "level": cfg["level"],
            "coverage": {
                "evaluations": agg["runs"],
                "distinct_nontrivial": len(agg["hashes"]),
                "rule": cfg["rule"],
                "samples": agg["samples"][:3] or [{"note": "no sample collected"}],
                "exhaustive": bool(total is not None and agg["runs"] == total and not agg["inconclusive"]),
                "enumerated_space": total,
                "runs_per_hour": int(agg["runs"] / max(wall, 1e-9) * 3600),
                "simulated_time_s": round(agg["sim_ns"] / 1e9, 1),
                "scheduler_steps": agg["steps"],
                "faults_fired": agg["faults"],
                "probes": {k: v for k, v in sorted(agg["probes"].items()) if not k.startswith("site/") or v > 0},
                "inconclusive_runs": agg["inconclusive"],
                "determinism_selftest": det,
                "race_detector": race_info and {"binary_runs": True, "reports": race_info["reports"], "selftest": race_self},
                "corpus_replayed": corpus_run,
                "known_findings_seen": sorted(known_hits),
                "real_components": cfg.get("real", []),
                "stubbed_components": cfg.get("stubbed", []),
                "build_s": {k: round(v, 1) for k, v in build_s.items()},
                "instrumentation": b.stats,
            },
            "assumptions": cfg.get("assumptions", []),
            "wall_s": round(wall, 1),
            "violations": len(violations),
        }
        evdir = os.environ.get("VERIF_EVIDENCE_DIR") or os.path.join(VERIF, "evidence")   # override: trial runs against seeded changes
        os.makedirs(evdir, exist_ok=True)
        with open(os.path.join(evdir, self.prop + ".json"), "w") as f:
            json.dump(ev, f, indent=1, default=str)
        print("%s %s: %d runs, %d distinct nontrivial, %.0fs wall, sim %.0fs, faults=%s" % (
            self.prop, tier, agg["runs"], len(agg["hashes"]), wall, agg["sim_ns"] / 1e9, agg["faults"]))
        # one line per LISTED finding (whether or not this run's sample happened to reproduce it)
        hit_patterns = set()
        for msig in known_hits:
            for k in known:
                if fnmatch.fnmatchcase(str(msig), k[0]):
                    hit_patterns.add(k[0])
        for pat, text in known:
            print("KNOWN-FINDING: property=%s %s [class %s; %s]" % (
                self.prop, text, pat, "reproduced in this run" if pat in hit_patterns else "not sampled in this run"))
        if dirty:
            problems.append("/repo working tree changed while the check ran (checks must never write into /repo)")
        for (sig, path, detail) in violations:
            print("  class=%s detail=%s" % (sig, detail))
            print("VIOLATION property=%s replay=%s" % (self.prop, path))
        if violations:
            if det_problem:
                print("HARNESS-NOTE:", det_problem[:1500])
            return 1
        if det_problem:
            problems.insert(0, det_problem)
        if problems:
            for p in problems[:10]:
                print("HARNESS-ERROR:", p[:3000])
            return 2
        return 0

    def collect_race_reports(self, d):
        reports = 0
        by_sig = {}
        for path in glob.glob(os.path.join(d, "race.*")):
            txt = open(path, errors="replace").read()
            for block in txt.split("=================="):
                if "WARNING: DATA RACE" not in block:
                    continue
                reports += 1
                frames = re.findall(r"\n\s+(github\.com/tucats/ego/[^\s(]+)\(", block)
                frames = [f for f in frames if "/verifsim/" not in f and "zz_verifsim" not in f]
                top = []
                for f in frames:
                    f = f.replace("github.com/tucats/ego/", "")
                    if f not in top:
                        top.append(f)
                    if len(top) == 2:
                        break
                sig = "+".join(sorted(top)) or "unknown"
                by_sig.setdefault(sig, block.strip()[:3000])
        return {"reports": reports, "by_sig": by_sig}
