from .configs import CONFIGS, ALL_INTERNAL, CACHES_EXPORT

CONFIGS["C17"] = dict(
    prop="C17", engine="tx-fault", pkg="internal/verifsim/txharness", harness="C17",
    level="fault_enumeration",
    level_text="for each seeded @transaction payload (1-6 tasks: insert / update / delete / select / readrows / symbols / sql / "
               "drop, failing tasks, error conditions that are false, true, empty, malformed or fail at evaluation) the real "
               "scripting.Handler runs against a real SQLite file once fault-free and then once per (driver call, fault "
               "kind): statement error, BUSY, disk full at every prepare/exec/query/begin/commit/rollback, and a commit that "
               "fails with the inner transaction left open; after every run the tables must equal the complete result (2xx) "
               "or the initial state (otherwise), a fresh connection must be able to BEGIN IMMEDIATE, and no transaction may "
               "remain open. Fault placement is exhaustive per payload; payloads are sampled by seed.",
    technique="deterministic fault injection: exhaustive per-call fault enumeration over a database/sql driver seam, differential all-or-nothing oracle",
    rewrite=dict(dirs=ALL_INTERNAL, sql=["internal/server/tables/database"]),
    sim_packages=("sim", "sync", "simrun", "simsql"),
    extra_files=[CACHES_EXPORT],
    race="none",
    quick=dict(runs=160, per_proc=10, budget_s=240),
    thorough=dict(runs=8000, per_proc=100, budget_s=1500),
    det_seeds=16,
    rule="payloads generated from a seed (1-6 tasks over two tables; one task in three carries an error condition of one of "
         "five kinds); each payload is one evaluation and is executed 1 + (driver calls x applicable fault kinds) times; "
         "non-trivial = every payload; distinct = distinct payload hash; faults_fired counts the individual injected faults",
    real=["scripting.Handler and its task implementations", "tables/database Open/Begin/Commit/Rollback/Close", "dsns file service (in memory)", "database/sql + modernc SQLite on a real file"],
    stubbed=["database/sql.Open in tables/database: fault-injecting driver wrapper (rule R1b)", "the request is handed to the handler directly with an administrator session (routing/authorization are other properties)"],
    assumptions=["SQLite only (the PostgreSQL code paths are not exercised)", "a failed COMMIT of kind error/busy/full is modelled as rolled back by the engine; kind commit-open leaves it open"],
    required_probes=["reference_success", "reference_refused", "fault_placements", "commit-open@commit"],
)
