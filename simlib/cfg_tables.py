from .configs import CONFIGS, ALL_INTERNAL, CACHES_EXPORT

CONFIGS["C17"] = dict(
    prop="C17", engine="tx-fault", pkg="internal/verifsim/txharness", harness="C17",
    level="fault_enumeration",
    level_text="for each seeded @transaction payload (1-6 tasks: insert / update / delete / select / readrows / symbols / sql (update, insert, "
               "delete, select, transaction-control text) / readrows with row-returning DML / drop, failing tasks, error conditions that are false, true, empty, malformed or fail at evaluation) the real "
               "scripting.Handler runs against a real SQLite file once fault-free and then once per (driver call, fault "
               "kind): statement error, BUSY, disk full at every prepare/exec/query/begin/commit/rollback, a commit that "
               "fails with the inner transaction left open, and a client disconnect (the request context is cancelled at that call); after every run the tables must equal the complete result (2xx) "
               "- both the fault-free run's result and, where defined, an independent model that applies every operation of the payload to the seeded tables - "
               "or the initial state (otherwise), a fresh connection must be able to BEGIN IMMEDIATE, and no transaction may "
               "remain open. Fault placement is exhaustive per payload; payloads are sampled by seed.",
    technique="deterministic fault injection: exhaustive per-call fault enumeration over a database/sql driver seam, all-or-nothing oracle against an independent model and the fault-free run",
    rewrite=dict(dirs=ALL_INTERNAL, sql=["internal/server/tables/database"]),
    sim_packages=("sim", "sync", "simrun", "simsql"),
    extra_files=[CACHES_EXPORT],
    race="none",
    quick=dict(runs=160, per_proc=10, budget_s=240),
    thorough=dict(runs=8000, per_proc=100, budget_s=1500),
    det_seeds=16,
    rule="payloads generated from a seed (1-6 tasks over two tables; one task in three carries an error condition of one of "
         "five kinds); each payload is one evaluation and is executed 1 + (driver calls x applicable fault kinds) times; "
         "non-trivial = every payload; distinct = distinct payload hash; faults_fired counts the individual injected faults",
    real=["scripting.Handler and its task implementations", "tables/database Open/Begin/Commit/Rollback/Close", "dsns file service (in memory)", "database/sql + modernc SQLite on a real file"],
    stubbed=["database/sql.Open in tables/database: fault-injecting driver wrapper (rule R1b)", "the request is handed to the handler directly with an administrator session (routing/authorization are other properties)"],
    assumptions=["SQLite only (the PostgreSQL code paths are not exercised)", "a failed COMMIT of kind error/busy/full is modelled as rolled back by the engine; kind commit-open leaves it open"],
    required_probes=["reference_success", "reference_refused", "fault_placements", "commit-open@commit", "payloads_with_independent_model"],
)

ROUTER_EXPORT = ("props/common/router_export.go", "internal/router/zz_verifsim_export.go")

CONFIGS["C43"] = dict(
    prop="C43", engine="grants-hist", pkg="internal/server/tables", harness="C43",
    level="exploration",
    level_text="seeded histories of grant / revoke (per user, DSN, table, permission subset) by the administrator interleaved "
               "with row reads, inserts, updates, deletes (plain and abstract row-set form), upserts of existing rows, the same operations as tasks of a "
               "@transaction script (incl. SQL text) and table drops by three users on two restricted DSNs (same table "
               "names) and an unrestricted DSN, table re-creation, cache purges and time advances past cache lifetimes, through the real router, table "
               "routes and handlers, dsns service, permission store (SQLite) and caches; each response and the table contents "
               "before/after are compared with a model of the grant set: a non-administrator's request on a restricted DSN "
               "may succeed or change data only with the matching grant; administrators, unrestricted DSNs and granted "
               "requests are not refused; grants never carry over to another user, DSN or table (incl. a dropped and "
               "re-created table).",
    technique="deterministic simulation: fake clock + seeded histories through the real REST stack against a grant-set model",
    rewrite=dict(dirs=ALL_INTERNAL),
    extra_files=[CACHES_EXPORT, ROUTER_EXPORT],
    race="none",
    quick=dict(runs=600, per_proc=40, budget_s=240),
    thorough=dict(runs=40000, per_proc=400, budget_s=1500),
    det_seeds=16,
    rule="histories of 10-34 operations over users {admin,u1,u2} x DSNs {3 restricted - one of them named like the unrestricted one plus a dotted suffix -, 1 unrestricted} x tables {t1,t2}; row requests in plain / "
         "abstract / upsert form, one in five as a one-task @transaction script (select, insert, update, delete, sql UPDATE, readrows DELETE..RETURNING; "
         "u1 holds the ego.sql user permission, u2 does not); a quarter of the row requests also carry ?user=<the other ordinary user>; half of the runs use the database-backed DSN service "
         "(with its DSN cache) instead of the in-memory file service; one operation in 25 begins a REST transaction on a restricted DSN and uses its id through the URL of the unrestricted one; one operation in forty turns the unrestricted DSN into a restricted one through its first DSN-level grant; "
         "non-trivial = >=4 operations; distinct = distinct history hash",
    real=["router.ServeHTTP + authentication", "tables.AddStaticRoutes handlers (rows, table delete/create, permissions)", "dsns file service (in memory) or dsns database service on SQLite (knob)", "permission store via resources on SQLite", "caches"],
    stubbed=["user store: in-memory AuthService (existing seam) with MinCost bcrypt hashes", "time: synctest fake clock", "sync: scheduling shim"],
    assumptions=["every user holds DSN-level read/write access, so that table grants are the deciding gate", "the permission store is available throughout (no faults in this engine, per the statement)"],
    required_probes=["requests_that_must_be_refused", "requests_allowed_by_a_grant", "grants", "tables_dropped", "upserts_of_existing_rows", "transaction_script_requests", "requests_naming_another_user", "cross_dsn_transaction_requests", "unrestricted_dsn_became_restricted"],
)
