from .configs import CONFIGS, ALL_INTERNAL, CACHES_EXPORT

CONFIGS["C29"] = dict(
    prop="C29", engine="cluster-net", pkg="internal/server/cluster", harness="C29",
    level="exploration",
    level_text="seeded search over (cluster size 1-5 x purge / membership / lifecycle / availability / partition / forged-message "
               "histories x message faults x schedules): several simulated server processes in one OS process (per-process caches "
               "state, node id, membership handle and router; one shared SQLite membership file), each joining through the real "
               "cluster.Initialize and leaving through the real cluster.Shutdown or by crashing (row left active) and restarting as a "
               "new generation on the same port; the real caches.Purge / PurgeAll -> OnPurge -> BroadcastCacheFlush -> SendCacheFlush -> "
               "FlushCacheHandler path over a simulated transport that drops, delays (also past the sender's timeout), duplicates, "
               "refuses and black-holes (partition) messages; invariants: only origin nodes send, hops=1 on the wire, per purge "
               "exactly one message per active membership row other than the sender's (a row changed concurrently may or may not "
               "count), every peer whose flush was delivered lost its cached entry (every predefined cache class and a user-defined "
               "one), a flush over the hop limit changes nothing, the membership table equals what the operations amount to, every "
               "peer is tried within rows x 5 s, and in a phase without faults every notification is delivered within a second.",
    technique="deterministic simulation: multi-node in one process, seeded scheduler, simulated transport with message loss/delay/duplication, invariants at quiescence",
    rewrite=dict(dirs=ALL_INTERNAL),
    extra_files=[CACHES_EXPORT],
    race="none",
    quick=dict(runs=1500, per_proc=100, budget_s=240),
    thorough=dict(runs=100000, per_proc=1000, budget_s=1500),
    det_seeds=24,
    rule="clusters of 1-5 processes, 2-7 phases of 1-3 operations: purge of one of 3 cache classes (drawn per run from the 12 "
         "predefined classes + a user-defined one) or PurgeAll on a node, administrative member removal / re-activation (before the "
         "purges of a phase or concurrently with them), listener down / up, crash / graceful stop / start of a new generation, "
         "partition into two halves for a phase, forged flush with hops 0/1/4/5/9; half of the runs use the lifecycle and "
         "concurrent-membership operations; two thirds of the runs have 1-5 message faults (drop, delay 1-20 s, duplicate); "
         "non-trivial = >=1 flush message on the wire; distinct = distinct (scheduler decisions, history, message fates) hash",
    real=["caches.Purge/PurgeLocal/PurgeAll/OnPurge", "cluster.Initialize (join), Shutdown (leave), BroadcastCacheFlush, SendCacheFlush, FlushCacheHandler, ValidateClusterToken, ListActiveMembers, upsertMember, RemoveMember",
          "router.ServeHTTP per process", "net/http client with its 5 s timeout on the fake clock", "SQLite membership file opened by every process through openSystemDB"],
    stubbed=["transport between processes: simulator (http.DefaultTransport seam), routing by port", "per-process package state (caches tables, NodeID, ThisMember, systemDB) swapped by the scheduler on process switches",
             "the health checker is not run (pingPeer builds a private http.Transport that cannot be routed through the simulator): evictions are generated operations using the real RemoveMember",
             "a crash is placed between phases (at quiescence), not in the middle of a broadcast"],
    assumptions=["delivery to a peer whose message was dropped, refused or partitioned away is not demanded (the code has no retry and the statement does not ask for one)",
                 "a 'peer' is an active membership row other than the sender's own; a restarted process whose dead predecessor's row is still active is behind two rows"],
    required_probes=["flushes_delivered_and_checked", "over_limit_forgeries_checked", "drop", "delay", "dup", "node-down-refused", "partition",
                     "lifecycle_crash", "lifecycle_stop", "lifecycle_start", "concurrent_membership_change", "purge_all", "fault_free_phase_deliveries_checked"],
)
