from .configs import CONFIGS, ALL_INTERNAL, CACHES_EXPORT

CONFIGS["C29"] = dict(
    prop="C29", engine="cluster-net", pkg="internal/server/cluster", harness="C29",
    level="exploration",
    level_text="seeded search over (cluster size 1-5 x purge / membership / availability / forged-message histories x message "
               "faults x schedules): several simulated nodes in one process (per-node caches state, node id and router; one "
               "shared SQLite membership table), the real caches.Purge -> OnPurge -> BroadcastCacheFlush -> SendCacheFlush -> "
               "FlushCacheHandler path over a simulated transport that drops, delays (also past the sender's timeout), "
               "duplicates and refuses messages; invariants: only origin nodes send, hops=1 on the wire, messages per purge "
               "bounded by the active peers, every active peer whose flush was delivered lost its cached entry, a flush over "
               "the hop limit changes nothing.",
    technique="deterministic simulation: multi-node in one process, seeded scheduler, simulated transport with message loss/delay/duplication, invariants at quiescence",
    rewrite=dict(dirs=ALL_INTERNAL),
    extra_files=[CACHES_EXPORT],
    race="none",
    quick=dict(runs=1500, per_proc=100, budget_s=240),
    thorough=dict(runs=100000, per_proc=1000, budget_s=1500),
    det_seeds=24,
    rule="clusters of 1-5 nodes, 2-7 phases of 1-2 operations (purge of one of 3 cache classes on a node, member removal / "
         "re-join, node down / up, forged flush with hops 0/1/4/5/9), two thirds of the runs with 1-5 message faults (drop, "
         "delay 1-20 s, duplicate); non-trivial = >=1 flush message on the wire; distinct = distinct (scheduler decisions, "
         "history, message fates) hash",
    real=["caches.Purge/PurgeLocal/OnPurge", "cluster.BroadcastCacheFlush, SendCacheFlush, FlushCacheHandler, ValidateClusterToken, ListActiveMembers, upsertMember, RemoveMember",
          "router.ServeHTTP per node", "net/http client with its 5 s timeout on the fake clock", "SQLite membership table"],
    stubbed=["transport between nodes: simulator (http.DefaultTransport seam)", "per-node package state (caches tables, NodeID, ThisMember) swapped by the scheduler on node switches",
             "cluster.Initialize and the health checker are bypassed: members are registered with the real upsertMember; membership changes are generated operations"],
    assumptions=["delivery to a peer whose message was dropped or refused is not demanded (the code has no retry and the statement does not ask for one)", "node crash/restart is not simulated, only unavailability"],
    required_probes=["flushes_delivered_and_checked", "over_limit_forgeries_checked", "drop", "delay", "dup", "node-down-refused"],
)
