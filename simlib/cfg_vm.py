from .configs import CONFIGS, ALL_INTERNAL, CACHES_EXPORT

VM_HELPER = ("props/vmcommon/vm.go", "internal/verifsim/vmharness/zz_verifsim_vm_test.go")

CONFIGS["C08"] = dict(
    prop="C08", engine="vm-sched", pkg="internal/verifsim/vmharness", harness="C08",
    level="exploration",
    level_text="seeded search over (generated concurrent Ego program x schedule): the real tokenizer, compiler and VM run "
               "programs with 1-4 Ego goroutines; the seeded scheduler decides which goroutine proceeds at every bytecode "
               "instruction (with seeded free-step budgets), every interpreter lock acquisition, every Ego mutex/WaitGroup/"
               "channel operation. Oracles: fully synchronised programs print the by-construction result under every "
               "schedule; no runtime error, host panic or deadlock; and, in the race-detector build with scheduler hand-offs "
               "hidden from it, no Go data race inside the interpreter (also for Ego programs that are racy by design).",
    technique="deterministic simulation: per-instruction seeded scheduling of the real VM + race detector under a serialising scheduler",
    rewrite=dict(dirs=ALL_INTERNAL, step=True, chan=["internal/language/data/channel.go"]),
    extra_files=[VM_HELPER],
    race="also",
    quick=dict(runs=1500, per_proc=100, budget_s=200),
    thorough=dict(runs=60000, per_proc=600, budget_s=1500),
    race_quick=dict(runs=400, per_proc=40, budget_s=200),
    race_thorough=dict(runs=20000, per_proc=250, budget_s=1500),
    det_seeds=24,
    rule="programs generated from a seed: W=1..4 workers (closures started with `go`), 1-5 steps each from {mutex-guarded "
         "increment / map element / slice element / field of a declared-type struct / helper call / pointer store / loop, RWMutex read/write, channel send, "
         "local computation}, buffered channel cap 1..4, main drains the channel and waits on a WaitGroup (either order); half "
         "of the programs instead start their workers from a function called from main (or two calls deep) while main keeps "
         "declaring locals and the workers call a named function in a loop (sharing only a channel and a WaitGroup); "
         "25% of programs drop the Ego-level locking (racy by design); one program in five starts its workers as closures in the first statements of a named function "
         "without parameters or locals, all shared state package-level (nested shape 3). Knobs per run: optimizer on/off, symbol allocation "
         "size, preemption probability, free-step budget, scheduling point after every mutex release (2 runs in 3). non-trivial = >=2 tasks runnable at some decision; distinct = "
         "distinct scheduler decision sequence hash",
    real=["tokenizer, compiler, bytecode VM, symbols, data (channels), runtime/sync, builtins, fmt"],
    stubbed=["sync: scheduling shim", "Ego channel send/receive/close in data/channel.go: rewritten to scheduled non-blocking "
             "attempts (rule R7) so that channel waits are scheduler decisions", "time: synctest fake clock"],
    assumptions=["programs are drawn from the generator's grammar only", "Go toolchain comparison of outputs is replaced by the "
                 "by-construction result (channels are untyped in Ego, so the programs are not literally Go)"],
    required_probes=["racy_programs", "synchronised_programs", "nested_launch_programs", "site/blocked:mutex", "site/blocked:chan-recv"],
)

CONFIGS["C09"] = dict(
    prop="C09", engine="vm-leak", pkg="internal/verifsim/vmharness", harness="C09",
    extra_harness=[],
    level="exploration",
    level_text="seeded search over (generated program with a generated exit path x number of repeated executions x "
               "schedule): the real compiler and VM execute each program 1-3 times inside one simulated process; then the "
               "fake clock advances ten minutes with the scheduler running everything runnable, which is an exact "
               "quiescence point; every goroutine started by repo code is a scheduler task with a recorded creation site, so "
               "the set of goroutines still alive is exact. Allowed: only the Ego goroutines the program itself left blocked "
               "(count known by construction).",
    technique="deterministic simulation: exact quiescence on a fake clock + task census by creation site",
    rewrite=dict(dirs=ALL_INTERNAL, step=True, chan=["internal/language/data/channel.go"]),
    extra_files=[VM_HELPER],
    race="none",
    quick=dict(runs=1500, per_proc=100, budget_s=200),
    thorough=dict(runs=60000, per_proc=500, budget_s=1500),
    det_seeds=24,
    rule="program drawn from 15 families (normal return, runtime error at iteration k, unrecovered panic at depth d, "
         "recovered panic in try/catch, sort.Slice with an Ego comparator without/with an error at call m, String() method "
         "called by fmt without/with an error, error inside a spawned goroutine, goroutines sleeping past main's exit, workers "
         "left blocked on a channel, nested callbacks, a native runtime function that hits a Go run-time panic (injected at "
         "the runtime-function seam) directly and inside a sort comparator, @fail with ego.runtime.panics=true), executed 1-3 "
         "times, the host recovering a Go panic per execution as the server does; non-trivial = every run; distinct = distinct "
         "(knobs, scheduler decision sequence) hash",
    real=["tokenizer, compiler, bytecode VM (incl. per-execution signal watcher), runtime/sort and runtime/fmt callbacks into Ego, runtime/time"],
    stubbed=["sync: scheduling shim", "Ego channel operations: scheduled (R7)", "time: synctest fake clock", "os/signal delivery is not simulated (the watcher only ever sees its done channel)"],
    assumptions=["the service-request part of C09 is observed as a probe in the C42 engine, not here"],
    required_probes=["error_exits", "program_own_blocked_goroutines", "family/sorterr", "family/stringerr", "family/panic", "family/gopanic", "family/failpanic", "go_panics_recovered_by_the_host"],
)
