from .configs import CONFIGS, ALL_INTERNAL, CACHES_EXPORT

ROUTER_EXPORT = ("props/common/router_export.go", "internal/router/zz_verifsim_export.go")

CONFIGS["C42"] = dict(
    prop="C42", engine="svc-sched", pkg="internal/verifsim/svcharness", harness="C42",
    level="exploration",
    level_text="seeded search over (request batch x schedule): the real router, authentication, services.ServiceHandler "
               "(in-process), service cache, compiler and VM serve batches of 2-5 requests with pairwise distinct URL parts, "
               "parameters, bodies, headers and users to generated stateless services (one of which ends in a run-time error for some inputs) and two shipped ones, in one or two waves; each batch is "
               "served request by request on a server that has seen no other request (absolute reference), one at a time on one "
               "server (must equal the absolute reference: no request sees an earlier one's data) and then, after flushing the service cache, concurrently under the seeded "
               "scheduler at bytecode-instruction and lock granularity; every concurrent response (status, content type, "
               "echo header, body) must equal the reference. Race-detector batch included. Also checks that nothing the "
               "requests started is alive ten simulated minutes later.",
    technique="deterministic simulation: seeded scheduling of concurrent requests through the real server stack, differential oracle against isolated and sequential service",
    rewrite=dict(dirs=ALL_INTERNAL, step=True, chan=["internal/language/data/channel.go"]),
    extra_files=[CACHES_EXPORT, ROUTER_EXPORT],
    env={"EGO_PATH": "/repo"},  # read-only: lib/packages/*.ego extensions used by shipped services
    race="also",
    quick=dict(runs=400, per_proc=30, budget_s=240),
    thorough=dict(runs=20000, per_proc=200, budget_s=1500),
    race_quick=dict(runs=96, per_proc=8, budget_s=240),
    race_thorough=dict(runs=4000, per_proc=50, budget_s=1500),
    det_seeds=16,
    rule="batches of 2-5 requests over 8 endpoints (6 generated stateless services, among them one that reads a bare URL-part symbol and one that "
         "divides by a URL part and so ends in a run-time error (500) when it is 0; half of the batches are split into two waves on one server, "
         "half of those with a failing request in the first wave; 3 of the generated services with loops, helper functions, URL "
         "parts, parameters, body, headers, user; shipped factor and unit-test/echo), one favourite endpoint per batch so "
         "same-endpoint first-request races are common, users from {anonymous, 4 accounts}; knobs: service cache size "
         "0/1/20, free-step budget, preemption probability. non-trivial = >=2 tasks runnable at some decision; distinct = "
         "distinct (scheduler decision sequence, responses) hash",
    real=["router.ServeHTTP, Session.Authenticate, rate limiter", "auth.ValidatePassword (bcrypt)", "services.ServiceHandler, service cache, symbol merge",
          "compiler, VM, runtime packages", "caches"],
    stubbed=["user store: in-memory implementation of the AuthService interface with MinCost bcrypt hashes (existing seam)",
             "sync: scheduling shim", "time: synctest fake clock", "child-process service mode is off"],
    assumptions=["services used keep no package-level state", "volatile response fields (session id, server info) are masked before comparison"],
    required_probes=["batches_with_same_endpoint_requests", "successful_reference_responses", "requests_ending_in_runtime_error"],
)
