from .configs import CONFIGS, ALL_INTERNAL, CACHES_EXPORT

CONFIGS["C24"] = dict(
    prop="C24", engine="lockout-hist", pkg="internal/router", harness="C24",
    level="exploration",
    level_text="seeded search over histories of (user, spelling, right/wrong password, time advance) x configurations (limit "
               "0..6 or unset, lockout 1 m / 15 m / 1 h or unset) through the real Router.ServeHTTP -> Authenticate -> rate "
               "limiter -> ValidatePassword path with the real pruner goroutine on the fake clock, 1-2 client tasks with "
               "disjoint users; every response (429 vs other, Retry-After, whether the credential store was consulted) is "
               "compared with a reference model of the statement; a second, lenient model that may forget idle records "
               "isolates the one known class.",
    technique="deterministic simulation: fake clock + seeded histories against a reference model (strict and lenient)",
    rewrite=dict(dirs=ALL_INTERNAL),
    extra_files=[CACHES_EXPORT],
    race="also",
    quick=dict(runs=4000, per_proc=250, budget_s=240),
    thorough=dict(runs=300000, per_proc=2500, budget_s=1500),
    race_quick=dict(runs=400, per_proc=50, budget_s=120),
    race_thorough=dict(runs=20000, per_proc=400, budget_s=900),
    det_seeds=32,
    rule="histories of 8-37 operations (login of own user / non-existent user with right or wrong password in 3 spellings; "
         "boundary-biased time advances from 1 s to 1 day); non-trivial = >=3 login attempts; distinct = distinct (scheduler "
         "decisions, observed history) hash",
    real=["router.ServeHTTP, Session.Authenticate, CheckRateLimit/RecordFailure/RecordSuccess, pruner goroutine", "auth.ValidatePassword (bcrypt)"],
    stubbed=["user store: counting in-memory implementation behind the AuthService interface (existing seam), MinCost bcrypt hashes",
             "time: synctest fake clock", "sync: scheduling shim"],
    assumptions=["attempts exactly at the instant a lockout ends are accepted either way (statement does not define the boundary)",
                 "configuration does not change in the middle of a history"],
    required_probes=["lockouts_started", "refused_while_locked"],
)
