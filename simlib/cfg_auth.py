from .configs import CONFIGS, ALL_INTERNAL, CACHES_EXPORT

CONFIGS["C24"] = dict(
    prop="C24", engine="lockout-hist", pkg="internal/router", harness="C24",
    level="exploration",
    level_text="seeded search over histories of (user, spelling, right/wrong password, time advance) x configurations (limit "
               "0..6 or unset, lockout 1 m / 15 m / 1 h or unset) through the real Router.ServeHTTP -> Authenticate -> rate "
               "limiter -> ValidatePassword path with the real pruner goroutine on the fake clock, 1-2 client tasks with "
               "disjoint users; every response (429 vs other, Retry-After, whether the credential store was consulted) is "
               "compared with a reference model of the statement; a second, lenient model that may forget idle records "
               "isolates the one known class.",
    technique="deterministic simulation: fake clock + seeded histories against a reference model (strict and lenient)",
    rewrite=dict(dirs=ALL_INTERNAL),
    extra_files=[CACHES_EXPORT],
    race="also",
    quick=dict(runs=4000, per_proc=250, budget_s=240),
    thorough=dict(runs=300000, per_proc=2500, budget_s=1500),
    race_quick=dict(runs=400, per_proc=50, budget_s=120),
    race_thorough=dict(runs=20000, per_proc=400, budget_s=900),
    det_seeds=32,
    rule="time advances in whole seconds around every threshold and, one operation in twelve, in milliseconds into the last fraction of a second of a lockout / just past its end; histories of 8-37 operations (login of own user / non-existent user with right or wrong password in 3 spellings; "
         "boundary-biased time advances from 1 s to 1 day); non-trivial = >=3 login attempts; distinct = distinct (scheduler "
         "decisions, observed history) hash",
    real=["router.ServeHTTP, Session.Authenticate, CheckRateLimit/RecordFailure/RecordSuccess, pruner goroutine", "auth.ValidatePassword (bcrypt)"],
    stubbed=["user store: counting in-memory implementation behind the AuthService interface (existing seam), MinCost bcrypt hashes",
             "time: synctest fake clock", "sync: scheduling shim"],
    assumptions=["attempts exactly at the instant a lockout ends are accepted either way (statement does not define the boundary)",
                 "configuration does not change in the middle of a history"],
    required_probes=["lockouts_started", "refused_while_locked"],
)

TOKENS_EXPORT = ("props/common/tokens_export.go", "internal/language/tokens/zz_verifsim_export.go")
ARGON_KNOB = ["internal/util/crypto.go:argon2Memory=64", "internal/util/crypto.go:argon2Time=1"]

CONFIGS["C21"] = dict(
    prop="C21", engine="auth-hist", pkg="internal/router", harness="C21",
    level="exploration",
    level_text="seeded search over histories x schedules: issue / validate (through the router, tokens.Validate and "
               "tokens.Unwrap; with every kind of single edit of the token string) / revoke / un-revoke / flush / purge of the "
               "token, revocation and auth caches / time advances around token expiry, cache lifetimes and sweep ticks; the "
               "operations of a phase run concurrently on 1-3 client tasks so that a validation can interleave with a "
               "revocation at every lock acquisition; every validation whose expected outcome is definite is compared with "
               "the reference model (valid iff issued here, unmodified, unexpired, id not revoked).",
    technique="deterministic simulation: fake clock + seeded concurrent histories against a reference model",
    rewrite=dict(dirs=ALL_INTERNAL, consts=ARGON_KNOB),
    extra_files=[CACHES_EXPORT, TOKENS_EXPORT],
    race="none",
    quick=dict(runs=1500, per_proc=100, budget_s=240),
    thorough=dict(runs=100000, per_proc=1000, budget_s=1500),
    det_seeds=24,
    rule="one phase in eight is followed by a server restart (every cache and the store handle lost, the revocation store file survives; one restart in three with a different token key, after which every earlier token must be refused); histories of 3-8 phases x 1-4 operations over 3 token slots and 2 users, lifetimes 30 s / 15 m / 2 h, cache size "
         "knob 1/2/1000; non-trivial = >=2 validations; distinct = distinct (scheduler decisions, validation outcomes) hash",
    real=["tokens.New/Validate/Unwrap/Blacklist/Delete/Flush", "resources store on a real SQLite file (modernc)", "caches incl. sweepers",
          "router.ServeHTTP + Session.Authenticate (token branch)", "util.Encrypt/Decrypt (AES-GCM, Argon2id)"],
    stubbed=["Argon2id cost parameters lowered to 64 KiB / 1 pass (pure cost knob, rule R6)", "user store: in-memory AuthService (existing seam)",
             "time: synctest fake clock", "sync: scheduling shim"],
    assumptions=["the server token key does not change during a history", "validations that overlap a change of the same token's state within one phase are not judged (either outcome legal)",
                 "an attempt exactly at the expiry instant is not judged"],
    required_probes=["restarts", "restarts_with_new_key", "validations"],
)

CONFIGS["C22"] = dict(
    prop="C22", engine="jwt-hist", pkg="internal/server/oauth", harness="C22",
    level="exploration",
    level_text="seeded search over histories x fault sequences: JWTs minted with every combination of signing key (published / "
               "published later / never published / RSA), algorithm (matching, HS256 keyed with the public key, none, "
               "mismatched), kid, iss, aud, exp and jti are presented to the real ValidateJWT before and after revocation, "
               "un-revocation, cache purge, cache/JWKS TTL expiry, token expiry, key rotation and key withdrawal, while the simulated identity "
               "provider behind the transport seam is up, down or slower than the client's timeout; safety oracle: accepted "
               "implies every condition of the statement holds at that moment; a narrow bounded-liveness oracle: a fully valid "
               "token is accepted while the IdP is reachable.",
    technique="deterministic simulation: fake clock, simulated IdP over the HTTP transport seam with injected unavailability/timeouts, history oracle",
    rewrite=dict(dirs=ALL_INTERNAL, consts=ARGON_KNOB),
    extra_files=[CACHES_EXPORT, TOKENS_EXPORT],
    race="none",
    quick=dict(runs=3000, per_proc=200, budget_s=240),
    thorough=dict(runs=200000, per_proc=2000, budget_s=1500),
    det_seeds=24,
    rule="half of the runs start through the real oauth.Initialize (settings, OIDC discovery against the simulated IdP, initial key-set load), half with the "
         "configuration set directly; one run in four ends with a revocation-race scenario (first validation of a fresh token concurrent with the revocation of its id, "
         "then two more presentations); histories of 3-9 phases x 1-3 operations (mint/present/revoke/un-revoke/purge/rotate/withdraw-key/IdP up-down-slow) over 4 token "
         "slots with 1-2 client tasks, boundary-biased time advances (30 s refresh throttle, 5 m / 1 h TTL, 10 m / 2 h token "
         "lifetimes); one run in four ends with a key-withdrawal scenario (the IdP stops publishing a key, the "
         "key-set cache runs out and is refreshed, a NEW token signed with the withdrawn key is presented); non-trivial = >=2 presentations; distinct = distinct (scheduler decisions, outcomes) hash",
    real=["oauth.ValidateJWT, parseAndValidateJWT, selectVerificationKey, JWKS cache/refresh/throttle", "golang-jwt/v5", "tokens revocation list on SQLite", "caches"],
    stubbed=["identity provider: simulated node behind http.DefaultTransport (existing seam)", "the simulated IdP never withdraws its last key (the server treats an empty key set as a failed fetch)",
             "time: synctest fake clock", "sync: scheduling shim"],
    assumptions=["acceptance is only demanded for tokens whose kid names a key published from the start and never withdrawn, while the IdP is reachable",
                 "a withdrawn key counts as 'not published' only once the IdP has delivered a key set without it to this server and for tokens minted after that delivery (earlier verifications may legitimately be cached)"],
    required_probes=["presentations", "accepted", "idp-unreachable-or-timeout", "withdrawn_key_presentations_judged", "initialized_through_discovery"],
)

BCRYPT_KNOB = ["internal/server/auth/hash.go:bcryptCost=4"]

CONFIGS["C31"] = dict(
    prop="C31", engine="users-hist", pkg="internal/server/auth", harness="C31",
    level="exploration",
    level_text="seeded histories of write / delete / read / list (masked and unmasked) / set-permission / get-permission(s) / "
               "flush / close-and-reopen / time advance / cache purge applied to the real file-backed and the real "
               "database-backed user store side by side (the latter with the real AuthCache and its sweeper on the fake "
               "clock); after every operation both stores must answer identically (values and error/no-error) and like a "
               "plain map; after flush + close + reopen the answers must be unchanged, including a write made by a second "
               "client task while the first is inside Flush (scheduler-chosen interleaving).",
    technique="differential reference-model refinement over seeded histories with fake clock and reopen",
    rewrite=dict(dirs=ALL_INTERNAL, consts=BCRYPT_KNOB),
    extra_files=[CACHES_EXPORT],
    race="none",
    quick=dict(runs=1500, per_proc=100, budget_s=240),
    thorough=dict(runs=100000, per_proc=1000, budget_s=1500),
    det_seeds=24,
    rule="histories of 10-39 operations over 5 user names (incl. a case variant), 4 permissions, nil / empty / non-empty "
         "permission lists, three credential shapes; non-trivial = >=4 operations; distinct = distinct history hash",
    real=["auth.NewFileService and NewDatabaseService (resources + SQLite file)", "setPermission / GetPermission / GetPermissions", "caches.AuthCache with sweeper"],
    stubbed=["bcrypt cost 12 -> 4 for the default-user hash made when a store is created (pure cost knob, rule R6)", "time: synctest fake clock", "sync: scheduling shim"],
    assumptions=["masked listings are compared only as 'is redacted' (the two stores use different placeholders)", "an empty permission list and an absent one are not distinguished in answers",
                 "ids are supplied by the caller (the stores do not generate them for written users)"],
    required_probes=["reopens", "operations"],
)

CONFIGS["C25"] = dict(
    prop="C25", engine="passwd-hist", pkg="internal/server/auth", harness="C25",
    level="exploration",
    level_text="the history/fault part of the statement: seeded histories of logins (user spelling x candidate: right, wrong, "
               "empty, case variant, right+space) against users stored as bcrypt, legacy SHA-256 and {plaintext}, interleaved "
               "with plaintext-setting toggles, permission changes, flush, close+reopen, crash (reopen without flush; only "
               "durable state survives) and injected failures of the next WriteUser / Flush through the AuthService seam, on "
               "the real file-backed and database-backed stores; every ValidatePassword result is compared with the model, so "
               "that the bcrypt migration (done, refused, or lost in a crash) never changes which passwords are accepted. The "
               "pure for-every-string part of C25 is input enumeration and is not claimed beyond the candidates used.",
    technique="deterministic simulation: seeded histories with injected store write/flush failures and crash-restart, reference model",
    rewrite=dict(dirs=ALL_INTERNAL, consts=BCRYPT_KNOB),
    extra_files=[CACHES_EXPORT],
    race="none",
    quick=dict(runs=1200, per_proc=80, budget_s=240),
    thorough=dict(runs=60000, per_proc=800, budget_s=1500),
    det_seeds=24,
    rule="histories of 8-27 operations over 4 users (bcrypt / legacy / plaintext / legacy without logon) + an unknown user, "
         "store knob file/database, plaintext knob; non-trivial = >=3 logins; distinct = distinct (knobs, history) hash",
    real=["auth.ValidatePassword, HashPassword, setPermission", "file-backed and database-backed user stores", "caches.AuthCache"],
    stubbed=["bcrypt cost 12 -> 4 (pure cost knob, rule R6)", "time: synctest fake clock"],
    assumptions=["write/flush failures are injected at the AuthService interface, not inside SQLite"],
    required_probes=["migrations_done", "crash", "reopen", "write-error", "flush-error"],
)
