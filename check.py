#!/usr/bin/env python3
"""Entry point of every registered check:  python3 check.py <property> [--tier quick|thorough] [--replay file]

exit 0: property held on everything explored (KNOWN-FINDING lines possible)
exit 1: at least one reproduced, minimised violation: VIOLATION property=<id> replay=<path>
exit 2: build / instrumentation / determinism / reach / watchdog trouble (never a verdict)
"""
import argparse
import os
import sys

sys.path.insert(0, os.path.dirname(os.path.abspath(__file__)))
from simlib import driver  # noqa: E402
from simlib.allconfigs import CONFIGS  # noqa: E402


def main():
    ap = argparse.ArgumentParser()
    ap.add_argument("prop")
    ap.add_argument("--tier", default=os.environ.get("VERIF_TIER", "quick"), choices=["quick", "thorough"])
    ap.add_argument("--replay")
    ap.add_argument("--seed", type=int, default=int(os.environ.get("VERIF_SEED", "1") or 1))
    a = ap.parse_args()
    if a.prop not in CONFIGS:
        print("unknown property", a.prop)
        return 2
    cfg = CONFIGS[a.prop]
    chk = cfg.get("driver", driver.Check)(cfg)
    if a.replay:
        return chk.replay_file(a.replay)
    return chk.main(a.tier, a.seed)


if __name__ == "__main__":
    try:
        sys.exit(main())
    except Exception as ex:  # harness trouble is never a verdict
        import traceback
        traceback.print_exc()
        print("HARNESS-ERROR:", ex)
        sys.exit(2)
