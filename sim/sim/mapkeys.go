package sim

import "fmt"

func keyString(k any) string { return fmt.Sprintf("%#v", k) }
