package sim

import "fmt"

func keyString(k any) string { return fmt.Sprintf("%#v", k) }

// runIDs renders the runnable set for log lines (only when there is a real choice).
//
//go:norace
func runIDs(run []*local) string {
	if len(run) < 2 {
		return ""
	}
	s := " ["
	for i, l := range run {
		if i > 0 {
			s += " "
		}
		s += l.id
	}
	return s + "]"
}
