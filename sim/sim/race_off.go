//go:build !race

package sim

// RaceEnabled reports whether the binary was built with -race.
const RaceEnabled = false

func raceDisable() {}
func raceEnable()  {}
