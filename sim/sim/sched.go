// Package sim is the seeded scheduler of the deterministic simulator.
//
// It is compiled INTO the ego module (virtual path internal/verifsim/sim, via
// go build -overlay) so that instrumented repo code and in-package harnesses can
// import it. With no run active every entry point is a cheap pass-through.
//
// One simulated run = one testing/synctest bubble. The bubble's root goroutine is
// the scheduler. Every other goroutine that matters is a *task*: it stops at yield
// points (Enter, Step, shim Lock/RLock/Wait, harness Yield) by sending a request to
// the scheduler and blocking on the reply. The scheduler calls synctest.Wait() (all
// goroutines durably blocked), collects requests, picks ONE runnable task with the
// run's PRNG (or the replay trace) and releases it. So exactly one task executes
// real code at any time and a run is a pure function of (code, Options).
//
// Race detector: hand-offs must not create happens-before edges, otherwise the
// serialising scheduler hides every race. All channel operations of the hand-off
// are bracketed by runtime.RaceDisable/Enable (sync events ignored), the functions
// here are //go:norace, and no memory is shared between tasks and scheduler except
// through those channels (task-local data lives in a goid-indexed array where each
// goroutine touches only its own slot).
package sim

import (
	"runtime"
	"sort"
	"strings"
	"sync/atomic"
	"testing/synctest"
	"time"
)

// Kind of a yield point.
type Kind uint8

const (
	KEnter   Kind = iota // child goroutine's first action
	KStep                // one Ego bytecode instruction
	KLock                // about to try a lock
	KBlocked             // TryLock / WaitGroup not ready; wait for progress
	KYield               // harness or shim yield (site tells which)
	KNet                 // simnet round trip boundary
	KSpawn               // internal: ask for a child token
	KExit                // internal: task finished
	KNode                // internal: tag the task with a node number
	KFatal               // the task hit a condition that would kill the real process (Go "fatal error")
)

var kindNames = [...]string{"enter", "step", "lock", "blocked", "yield", "net", "spawn", "exit", "node", "fatal"}

func (k Kind) String() string { return kindNames[k] }

// Token identifies a child task before its goroutine exists.
type Token struct {
	id   string
	site string // file:line of the go statement that created the task
	node int    // the parent's node when the go statement ran (the child inherits it)
	s    *Sched
}

// local is the per-goroutine record. Fields in the first group are touched only by
// the owning goroutine, those in the second only by the scheduler.
type local struct {
	// owner side
	s     *Sched
	id    string
	reply chan grant
	free  int
	site  string

	// scheduler side
	pending   *request
	blockedAt uint64 // progress value seen when it reported KBlocked (+1), 0 = not blocked
	children  int
	done      bool
	node      int
}

type request struct {
	l    *local
	kind Kind
	site string
	node int
	rord chan [2]int // reply to KSpawn: child ordinal and the parent's node at spawn time
}

// grant is what the scheduler sends to release a task.
type grant struct {
	free     int  // free bytecode steps
	switched bool // the previously released task belonged to another node
	from, to int
}

// Choice is one recorded scheduler decision (only recorded where >1 task was runnable
// or a free-step budget was drawn).
type Choice struct {
	T string `json:"t"`           // task id released
	F int    `json:"f,omitempty"` // free steps granted
}

// Options of one run. Everything random in the scheduler derives from Seed.
type Options struct {
	Seed        uint64
	PreemptNum  int           // preempt with probability PreemptNum/PreemptDen when the current task could continue
	PreemptDen  int           //   (0/0 => always pick uniformly)
	MaxFree     int           // upper bound of free bytecode steps granted per release (0 => none)
	Replay      []Choice      // if non-nil, follow this instead of the PRNG
	MaxSteps    int           // cap on scheduling decisions (0 => 2,000,000)
	Tick        time.Duration // fake-clock advance per scheduling decision (0 = time stands still while tasks run)
	Horizon     time.Duration
	BiasSites   []string                   // after a yield at one of these sites, always preempt (if another task is runnable)
	KeepLog     bool                       // keep the textual event log (samples / replays)
	UnlockYield bool                       // every Unlock/RUnlock of a shim mutex is followed by a scheduling point (a goroutine can be descheduled right after releasing a lock)
	OnSwitch    func(fromNode, toNode int) // called by the released task, before it continues, when the previous task belonged to another node
}

// Result of one run.
type Result struct {
	Steps         int      // scheduling decisions
	Choices       []Choice // decisions where a real choice existed
	Hash          uint64   // hash of the full decision sequence (interleaving id)
	MaxRunnable   int
	Switches      int // decisions that released a different task than the previous one
	Tasks         int
	Deadlock      string // non-empty: description of the stuck state
	Fatal         string // non-empty: a task hit a Go "fatal error" condition (message + stack); the run stopped there
	StepCap       bool
	Log           []string
	SimTime       time.Duration
	Leftover      int            // tasks still parked at the end
	LeftoverTasks []string       // "<id> created at <site> state <state>" for each of them
	Sites         map[string]int // releases per yield kind/site
}

// Sched is the scheduler of one run.
type Sched struct {
	opt          Options
	req          chan *request
	rng          rng
	tasks        []*local
	cur          *local
	res          Result
	replayAt     int
	mainDone     bool
	start        time.Time
	lastNode     int
	mainProgress time.Time
}

var (
	active   atomic.Pointer[Sched]
	progress atomic.Uint64 // bumped by every Unlock/Done: "a blocked task may be able to proceed"
	ticks    atomic.Uint64 // harness logical clock
)

const tlsSize = 1 << 22

var tls [tlsSize]*local

// goid parses the current goroutine id from runtime.Stack.
//
//go:norace
func goid() uint64 {
	var buf [40]byte
	n := runtime.Stack(buf[:], false)
	// "goroutine 123 ["
	var id uint64
	for i := 10; i < n; i++ {
		c := buf[i]
		if c < '0' || c > '9' {
			break
		}
		id = id*10 + uint64(c-'0')
	}
	return id
}

//go:norace
func me() *local {
	if active.Load() == nil {
		return nil
	}
	g := goid()
	if g >= tlsSize {
		panic("verifsim: goroutine id exceeds tls table; lower runs per process")
	}
	l := tls[g]
	if l == nil || l.s != active.Load() {
		return nil
	}
	return l
}

// Active reports whether a simulated run is in progress and the caller is one of its tasks.
//
//go:norace
func Active() bool { return me() != nil }

// Running reports whether any simulated run is in progress in this process.
func Running() bool { return active.Load() != nil }

//go:norace
func (l *local) yield(k Kind, site string) {
	raceDisable()
	l.s.req <- &request{l: l, kind: k, site: site}
	g := <-l.reply
	raceEnable()
	l.free = g.free
	if g.switched && l.s.opt.OnSwitch != nil {
		l.s.opt.OnSwitch(g.from, g.to)
	}
}

// Spawn is called by the parent immediately before a `go` statement.
//
//go:norace
func Spawn() *Token {
	l := me()
	if l == nil {
		return nil
	}
	raceDisable()
	r := &request{l: l, kind: KSpawn, rord: make(chan [2]int)}
	l.s.req <- r
	sp := <-r.rord
	ord := sp[0]
	raceEnable()
	// the id is built by the parent goroutine (never by the scheduler) so that harness
	// code reading it later has a real happens-before edge (the go statement).
	t := &Token{id: l.id + "." + itoa(ord), s: l.s, node: sp[1]}
	if _, file, line, ok := runtime.Caller(1); ok {
		if i := strings.LastIndex(file, "/internal/"); i >= 0 {
			file = file[i+1:]
		}
		t.site = file + ":" + itoa(line)
	}
	return t
}

//go:norace
func itoa(n int) string {
	if n == 0 {
		return "0"
	}
	var b [20]byte
	i := len(b)
	for n > 0 {
		i--
		b[i] = byte('0' + n%10)
		n /= 10
	}
	return string(b[i:])
}

// Enter is the first thing a spawned goroutine does.
//
//go:norace
func Enter(t *Token) {
	if t == nil || t.s != active.Load() {
		return
	}
	g := goid()
	if g >= tlsSize {
		panic("verifsim: goroutine id exceeds tls table; lower runs per process")
	}
	l := &local{s: t.s, id: t.id, site: t.site, reply: make(chan grant)}
	tls[g] = l
	raceDisable()
	l.s.req <- &request{l: l, kind: KEnter, node: t.node}
	gr := <-l.reply
	raceEnable()
	l.free = gr.free
	if gr.switched && l.s.opt.OnSwitch != nil {
		l.s.opt.OnSwitch(gr.from, gr.to)
	}
}

// Exit marks the calling task finished (deferred by the `go` wrapper).
//
//go:norace
func Exit() {
	l := me()
	if l == nil {
		return
	}
	g := goid()
	tls[g] = nil
	raceDisable()
	progress.Add(1)
	l.s.req <- &request{l: l, kind: KExit}
	raceEnable()
}

// Go starts fn as a new task (what the rewritten `go` statements expand to).
func Go(fn func()) {
	t := Spawn()
	go func() {
		Enter(t)
		defer Exit()
		fn()
	}()
}

// Step is inserted at the top of the bytecode dispatch loop.
//
//go:norace
func Step() {
	if active.Load() == nil {
		return
	}
	l := me()
	if l == nil {
		return
	}
	if l.free > 0 {
		l.free--
		return
	}
	l.yield(KStep, "")
}

// Yield is a named scheduling point.
//
//go:norace
func Yield(site string) {
	if active.Load() == nil {
		return
	}
	if l := me(); l != nil {
		l.yield(KYield, site)
	}
}

// AfterUnlock is called by the sync shim after a mutex was released: with Options.UnlockYield it
// is a scheduling point.
//
//go:norace
func AfterUnlock() {
	if active.Load() == nil {
		return
	}
	raceDisable()
	progress.Add(1)
	raceEnable()
	if l := me(); l != nil && l.s.opt.UnlockYield {
		l.yield(KYield, "unlock")
	}
}

// BeforeLock is called by the sync shim before the first TryLock.
//
//go:norace
func BeforeLock(site string) bool {
	if active.Load() == nil {
		return false
	}
	l := me()
	if l == nil {
		return false
	}
	if l.s.opt.KeepLog && site == "" {
		// (logging runs only: name the lock by its acquisition site)
		if _, file, line, ok := runtime.Caller(2); ok {
			if i := strings.LastIndex(file, "/internal/"); i >= 0 {
				file = file[i+10:]
			}
			site = "@" + file + ":" + itoa(line)
		}
	}
	l.yield(KLock, site)
	return true
}

// Blocked is called by the sync shim after a failed TryLock (or a non-zero WaitGroup).
// It returns once some Unlock/Done happened and the scheduler chose this task again.
//
//go:norace
func Blocked(site string) {
	l := me()
	if l == nil {
		runtime.Gosched()
		return
	}
	l.yield(KBlocked, site)
}

// Fatal is called by the shims where the real runtime would end the process with an
// unrecoverable "fatal error" (for example unlocking an unlocked mutex). The run stops: the
// calling task never returns, no other task is released again, Result.Fatal holds the message
// and the stack of the offending call.
//
//go:norace
func Fatal(msg string) {
	l := me()
	if l == nil {
		return
	}
	buf := make([]byte, 8192)
	n := runtime.Stack(buf, false)
	raceDisable()
	l.s.req <- &request{l: l, kind: KFatal, site: msg + "\n" + string(buf[:n])}
	<-l.reply // never answered
}

// Progress tells the scheduler that blocked tasks may be able to proceed.
//
//go:norace
func Progress() {
	if active.Load() == nil {
		return
	}
	raceDisable()
	progress.Add(1)
	raceEnable()
}

// Tick returns a fresh value of the harness logical clock. Because exactly one task
// runs at a time, ticks are totally ordered consistently with real-time order.
//
//go:norace
func Tick() int64 {
	raceDisable()
	v := ticks.Add(1)
	raceEnable()
	return int64(v)
}

// TaskID returns the calling task's deterministic id ("" outside a run).
//
//go:norace
func TaskID() string {
	if l := me(); l != nil {
		return l.id
	}
	return ""
}

// SetNode tags the calling task (and the tasks it spawns from now on) with a node number.
//
//go:norace
func SetNode(n int) {
	if l := me(); l != nil {
		raceDisable()
		l.s.req <- &request{l: l, kind: KNode, node: n}
		g := <-l.reply
		raceEnable()
		l.free = g.free
		if g.switched && l.s.opt.OnSwitch != nil {
			l.s.opt.OnSwitch(g.from, g.to)
		}
	}
}

// ---------------------------------------------------------------- scheduler side

// Run executes main as task "0" under a fresh scheduler. Must be called from the root
// goroutine of a synctest bubble.
//
//go:norace
func Run(opt Options, main func()) (res Result) {
	if opt.MaxSteps == 0 {
		opt.MaxSteps = 2_000_000
	}
	if opt.Horizon == 0 {
		opt.Horizon = 72 * time.Hour
	}
	s := &Sched{opt: opt, req: make(chan *request), start: time.Now(), mainProgress: time.Now()}
	s.res.Sites = map[string]int{}
	s.rng.seed(opt.Seed)
	s.res.Hash = 1469598103934665603
	progress.Store(1)
	ticks.Store(0)
	active.Store(s)
	defer active.Store(nil)

	// The go statement below runs with race synchronisation ENABLED: it is the real
	// happens-before edge from everything the harness set up to the main task. fin is the
	// edge back (main task's writes -> harness reading results after the run).
	root := &Token{id: "0", s: s}
	fin := make(chan struct{})
	go func() {
		Enter(root)
		defer Exit()
		defer close(fin)
		main()
		// End-of-run drain: while the main task sleeps for one fake microsecond every task that is
		// still runnable is scheduled until it blocks for good (a timer, a channel). Without it a run
		// could end with a background task parked in the middle of a step (say between reading the
		// configuration and taking its lock), which made the end of a run depend on simultaneous
		// wake-ups and left the race detector without the edge that the completed step provides.
		time.Sleep(time.Microsecond)
	}()

	raceDisable()
	s.loop()
	raceEnable()
	if s.mainDone {
		<-fin
	}
	s.res.SimTime = time.Since(s.start)
	for _, l := range s.tasks {
		if !l.done {
			s.res.Leftover++
			st := "running-or-blocked-outside-scheduler"
			if l.pending != nil {
				st = l.pending.kind.String() + ":" + l.pending.site
			}
			s.res.LeftoverTasks = append(s.res.LeftoverTasks, l.id+" created at "+l.site+" state "+st)
		}
	}
	s.res.Tasks = len(s.tasks)
	return s.res
}

//go:norace
func (s *Sched) handle(r *request) (inPlace bool) {
	l := r.l
	switch r.kind {
	case KSpawn:
		l.children++
		r.rord <- [2]int{l.children, l.node}
		return true
	case KNode:
		// re-tag the task, then schedule it like any yield: the grant tells it whether the
		// node context has to be switched before it continues
		l.node = r.node
		l.pending = r
	case KEnter:
		// the node is the parent's AT THE GO STATEMENT (carried in the token), not the parent's
		// current one: parent and child run on between the go statement and this registration
		l.node = r.node
		s.tasks = append(s.tasks, l)
		l.pending = r
	case KFatal:
		// the process is dead: record it; nothing runs any more (the task stays parked)
		if s.res.Fatal == "" {
			s.res.Fatal = r.site
		}
	case KExit:
		l.done = true
		l.pending = nil
		if l.id == "0" {
			s.mainDone = true
		}
		if s.cur == l {
			s.cur = nil
		}
	case KBlocked:
		l.pending = r
		l.blockedAt = progress.Load()
	default:
		l.pending = r
	}
	return false
}

//go:norace
func (s *Sched) parentOf(id string) *local {
	i := strings.LastIndexByte(id, '.')
	if i < 0 {
		return nil
	}
	pid := id[:i]
	for _, t := range s.tasks {
		if t.id == pid {
			return t
		}
	}
	return nil
}

//go:norace
func (s *Sched) drain() (inPlace bool) {
	for {
		select {
		case r := <-s.req:
			if s.handle(r) {
				inPlace = true
			}
		default:
			return
		}
	}
}

//go:norace
func (s *Sched) logline(line string) {
	// (no fmt here: fmt's printer pool would be shared with task goroutines without the
	// happens-before edges that RaceDisable hides, a false race report)
	if s.opt.KeepLog && len(s.res.Log) < 20000 {
		s.res.Log = append(s.res.Log, line)
	}
}

//go:norace
func (s *Sched) loop() {
	for {
		synctest.Wait()
		if s.opt.Tick > 0 {
			// simulated CPU time: the fake clock advances a little with every decision, so
			// code that compares timestamps taken in different steps sees time pass. (Everyone
			// is parked here; goroutines woken by the advance run to their next yield point.)
			time.Sleep(s.opt.Tick)
			synctest.Wait()
		}
		if s.drain() {
			continue // a request was answered in place; that task is running again
		}
		if s.mainDone || s.res.Fatal != "" {
			return
		}
		if time.Since(s.mainProgress) > s.opt.Horizon {
			s.res.Deadlock = s.describeStuck()
			return
		}
		// runnable set
		var run []*local
		prog := progress.Load()
		nblocked := 0
		for _, l := range s.tasks {
			if l.done || l.pending == nil {
				continue
			}
			if l.pending.kind == KBlocked && l.blockedAt == prog {
				nblocked++
				continue
			}
			run = append(run, l)
		}
		if len(run) == 0 {
			// Nothing can be released. Either tasks sleep on (fake) timers / real channels,
			// or we are stuck. Block for a request with a far horizon; the bubble's clock
			// jumps to the next timer while we wait.
			tm := time.NewTimer(s.opt.Horizon - time.Since(s.mainProgress) + time.Second)
			select {
			case r := <-s.req:
				tm.Stop()
				s.handle(r)
			case <-tm.C:
			}
			continue
		}
		if s.res.Steps >= s.opt.MaxSteps {
			s.res.StepCap = true
			return
		}
		sort.Slice(run, func(i, j int) bool { return run[i].id < run[j].id })
		if len(run) > s.res.MaxRunnable {
			s.res.MaxRunnable = len(run)
		}
		pick, free := s.choose(run)
		s.res.Steps++
		k := pick.pending.kind
		site := pick.pending.site
		h := s.res.Hash
		for i := 0; i < len(pick.id); i++ {
			h = (h ^ uint64(pick.id[i])) * 1099511628211
		}
		h = (h ^ uint64(k)) * 1099511628211
		h = (h ^ uint64(free)) * 1099511628211
		s.res.Hash = h
		if s.cur != pick {
			s.res.Switches++
		}
		if s.opt.KeepLog {
			s.logline(itoa(s.res.Steps) + " " + pick.id + " " + k.String() + " " + site + " run=" + itoa(len(run)) + " t=" + itoa(int(time.Since(s.start)/time.Microsecond)) + "us" + runIDs(run))
		}
		g := grant{free: free}
		if pick.node != s.lastNode {
			g.switched, g.from, g.to = true, s.lastNode, pick.node
			s.lastNode = pick.node
		}
		if pick.id == "0" {
			s.mainProgress = time.Now()
		}
		if k != KStep || site != "" {
			key := k.String()
			if site != "" {
				key += ":" + site
			}
			s.res.Sites[key]++
		} else {
			s.res.Sites["step"]++
		}
		s.cur = pick
		pick.pending = nil
		pick.blockedAt = 0
		pick.reply <- g
	}
}

//go:norace
func (s *Sched) choose(run []*local) (*local, int) {
	var pick *local
	free := 0
	if s.opt.Replay != nil {
		if len(run) == 1 && s.opt.MaxFree == 0 {
			return run[0], 0
		}
		if s.replayAt < len(s.opt.Replay) {
			c := s.opt.Replay[s.replayAt]
			s.replayAt++
			for _, l := range run {
				if l.id == c.T {
					pick = l
					free = c.F
					break
				}
			}
		}
		if pick == nil {
			// trace exhausted or the recorded task is not runnable (after shrinking):
			// prefer to keep running the current task, else the lowest id.
			pick = run[0]
			for _, l := range run {
				if l == s.cur {
					pick = l
				}
			}
		}
		s.res.Choices = append(s.res.Choices, Choice{T: pick.id, F: free})
		return pick, free
	}
	if len(run) == 1 {
		pick = run[0]
	} else {
		curOK := false
		for _, l := range run {
			if l == s.cur {
				curOK = true
			}
		}
		forced := false
		if curOK && len(s.opt.BiasSites) > 0 {
			for _, b := range s.opt.BiasSites {
				if s.cur.pending.site == b {
					forced = true
				}
			}
		}
		switch {
		case forced:
			// choose uniformly among the others
			i := s.rng.intn(len(run) - 1)
			for _, l := range run {
				if l == s.cur {
					continue
				}
				if i == 0 {
					pick = l
					break
				}
				i--
			}
		case curOK && s.opt.PreemptDen > 0 && s.rng.intn(s.opt.PreemptDen) >= s.opt.PreemptNum:
			pick = s.cur
		default:
			pick = run[s.rng.intn(len(run))]
		}
	}
	if s.opt.MaxFree > 0 && pick.pending.kind == KStep {
		// skewed: mostly small budgets, sometimes large
		free = s.rng.intn(s.opt.MaxFree + 1)
		if s.rng.intn(2) == 0 {
			free = s.rng.intn(4)
		}
	}
	if len(run) > 1 || s.opt.MaxFree > 0 {
		s.res.Choices = append(s.res.Choices, Choice{T: pick.id, F: free})
	}
	return pick, free
}

//go:norace
func (s *Sched) describeStuck() string {
	var b strings.Builder
	b.WriteString("no task can run: ")
	for _, l := range s.tasks {
		if l.done {
			continue
		}
		if l.pending != nil {
			b.WriteString("[" + l.id + " " + l.pending.kind.String() + " " + l.pending.site + "] ")
		} else {
			b.WriteString("[" + l.id + " blocked-outside-scheduler] ")
		}
	}
	return b.String()
}

// ---------------------------------------------------------------- PRNG (splitmix64)

type rng struct{ x uint64 }

func (r *rng) seed(s uint64) { r.x = s*0x9E3779B97F4A7C15 + 0x632BE59BD9B4E019 }

//go:norace
func (r *rng) next() uint64 {
	r.x += 0x9E3779B97F4A7C15
	z := r.x
	z = (z ^ (z >> 30)) * 0xBF58476D1CE4E5B9
	z = (z ^ (z >> 27)) * 0x94D049BB133111EB
	return z ^ (z >> 31)
}

//go:norace
func (r *rng) intn(n int) int {
	if n <= 1 {
		return 0
	}
	return int(r.next() % uint64(n))
}

// Rand is a small exported PRNG for harnesses (same generator, independent stream).
type Rand struct{ r rng }

func NewRand(seed uint64) *Rand { x := &Rand{}; x.r.seed(seed ^ 0xA5A5A5A55A5A5A5A); return x }
func (x *Rand) Intn(n int) int  { return x.r.intn(n) }
func (x *Rand) Uint64() uint64  { return x.r.next() }
func (x *Rand) Bool() bool      { return x.r.next()&1 == 1 }

// Perm returns a seeded permutation of 0..n-1 (Fisher-Yates).
func (x *Rand) Perm(n int) []int {
	p := make([]int, n)
	for i := range p {
		p[i] = i
	}
	for i := n - 1; i > 0; i-- {
		j := x.r.intn(i + 1)
		p[i], p[j] = p[j], p[i]
	}
	return p
}
func (x *Rand) Chance(num, den int) bool {
	return x.r.intn(den) < num
}

// Mix derives a sub-seed.
func Mix(seed uint64, salt uint64) uint64 {
	var r rng
	r.seed(seed ^ (salt * 0xD6E8FEB86659FD93))
	return r.next()
}

// ShadowAdd / ShadowLoad operate on a shim-owned counter without creating
// happens-before edges of their own.
//
//go:norace
func ShadowAdd(p *atomic.Int64, d int64) {
	raceDisable()
	p.Add(d)
	raceEnable()
}

//go:norace
func ShadowLoad(p *atomic.Int64) int64 {
	raceDisable()
	v := p.Load()
	raceEnable()
	return v
}

// ChanBlocked is Blocked for goroutines that may or may not be tasks (used by R7).
func ChanBlocked(site string) { Blocked(site) }

// Recv2 is a scheduled `v, ok := <-ch`.
func Recv2[T any](ch <-chan T) (T, bool) {
	if !Active() {
		v, ok := <-ch
		return v, ok
	}
	Yield("chan-recv")
	for {
		select {
		case v, ok := <-ch:
			Progress()
			return v, ok
		default:
			Blocked("chan-recv")
		}
	}
}

// Recv1 is a scheduled `v := <-ch`.
func Recv1[T any](ch <-chan T) T {
	v, _ := Recv2(ch)
	return v
}

// MapKeys returns the keys of m in a canonical order permuted by the run's map-order
// seed (rule R4). With no order seed installed it returns them sorted.
func MapKeys[K comparable, V any](m map[K]V) []K {
	keys := make([]K, 0, len(m))
	for k := range m {
		keys = append(keys, k)
	}
	// canonical order: by the printed form of the key (keys here are strings or small structs of strings)
	sort.Slice(keys, func(i, j int) bool { return keyString(keys[i]) < keyString(keys[j]) })
	if s := mapOrderSeed.Load(); s != 0 {
		r := NewRand(s)
		for i := len(keys) - 1; i > 0; i-- {
			j := r.Intn(i + 1)
			keys[i], keys[j] = keys[j], keys[i]
		}
	}
	return keys
}

var mapOrderSeed atomic.Uint64

// SetMapOrder installs the seed that decides the iteration order seen through MapKeys.
func SetMapOrder(seed uint64) { mapOrderSeed.Store(seed) }
