//go:build race

package sim

import "runtime"

// RaceEnabled reports whether the binary was built with -race.
const RaceEnabled = true

func raceDisable() { runtime.RaceDisable() }
func raceEnable()  { runtime.RaceEnable() }
