// Package sql (import path internal/verifsim/simsql) replaces the "database/sql" import of the
// packages that open table databases (rule R1b). Every type is an alias of the standard one;
// only Open differs: when a fault plan is installed it wraps the registered driver so that every
// driver call (prepare / exec / query / begin / commit / rollback) is a numbered fault point at
// which the plan can substitute an error WITHOUT executing the call:
//
//	error        "disk I/O error"
//	busy         "database is locked (5) (SQLITE_BUSY)"
//	full         "database or disk is full"
//	commit-open  (Commit only) the error is returned and the inner transaction is left open,
//	             the realistic WAL-mode BUSY-at-commit case
//
// It also counts connections and transactions that are still open, for leak oracles.
package sql

import (
	"context"
	stdsql "database/sql"
	"database/sql/driver"
	"errors"
	"fmt"
	stdsync "sync"
)

type (
	DB             = stdsql.DB
	Tx             = stdsql.Tx
	Rows           = stdsql.Rows
	Row            = stdsql.Row
	Stmt           = stdsql.Stmt
	Result         = stdsql.Result
	Conn           = stdsql.Conn
	TxOptions      = stdsql.TxOptions
	NullString     = stdsql.NullString
	NullInt64      = stdsql.NullInt64
	NullInt32      = stdsql.NullInt32
	NullFloat64    = stdsql.NullFloat64
	NullBool       = stdsql.NullBool
	NullTime       = stdsql.NullTime
	RawBytes       = stdsql.RawBytes
	ColumnType     = stdsql.ColumnType
	IsolationLevel = stdsql.IsolationLevel
	DBStats        = stdsql.DBStats
	NamedArg       = stdsql.NamedArg
	Scanner        = stdsql.Scanner
)

var (
	ErrNoRows   = stdsql.ErrNoRows
	ErrTxDone   = stdsql.ErrTxDone
	ErrConnDone = stdsql.ErrConnDone
)

func Named(name string, value any) NamedArg { return stdsql.Named(name, value) }
func Drivers() []string                     { return stdsql.Drivers() }
func Register(name string, d driver.Driver) { stdsql.Register(name, d) }
func OpenDB(c driver.Connector) *DB         { return stdsql.OpenDB(c) }

// Plan of one execution.
// OnCancel is called when a fault of kind "cancel" fires (set by the harness for one execution).
var OnCancel func()

type Plan struct {
	FailCall int    // 1-based number of the driver call that fails (0 = none)
	Kind     string // error | busy | full | commit-open | cancel
}

var (
	mu       stdsync.Mutex
	active   bool
	plan     Plan
	calls    []string
	fired    string
	openConn int
	openTx   int
)

// Install activates interception for databases opened from now on.
func Install(p Plan) {
	mu.Lock()
	defer mu.Unlock()
	active, plan, calls, fired, openConn, openTx = true, p, nil, "", 0, 0
}

// Uninstall returns the driver-call trace, the fault that fired ("" if none) and the numbers of
// connections and inner transactions still open.
func Uninstall() (trace []string, firedKind string, conns, txs int) {
	mu.Lock()
	defer mu.Unlock()
	active = false
	return calls, fired, openConn, openTx
}

func point(kind string) error {
	mu.Lock()
	defer mu.Unlock()
	calls = append(calls, kind)
	if plan.FailCall == len(calls) {
		k := plan.Kind
		if k == "commit-open" && kind != "commit" {
			k = "busy"
		}
		fired = k + "@" + kind
		if k == "cancel" {
			// not a driver error: the CLIENT goes away at this moment (the request's context is cancelled by
			// the harness's hook); the call itself succeeds
			if OnCancel != nil {
				OnCancel()
			}
			return nil
		}
		switch k {
		case "busy":
			return errors.New("database is locked (5) (SQLITE_BUSY)")
		case "full":
			return errors.New("database or disk is full (13)")
		case "commit-open":
			return errCommitOpen
		default:
			return errors.New("disk I/O error (10)")
		}
	}
	return nil
}

var errCommitOpen = errors.New("database is locked (5) (SQLITE_BUSY) [commit not performed]")

// Open is sql.Open with the fault-injecting wrapper when a plan is installed.
func Open(driverName, dsn string) (*DB, error) {
	mu.Lock()
	on := active
	mu.Unlock()
	if !on {
		return stdsql.Open(driverName, dsn)
	}
	probe, err := stdsql.Open(driverName, dsn)
	if err != nil {
		return nil, err
	}
	inner := probe.Driver()
	probe.Close()
	return stdsql.OpenDB(&connector{drv: inner, dsn: dsn}), nil
}

type connector struct {
	drv driver.Driver
	dsn string
}

func (c *connector) Connect(ctx context.Context) (driver.Conn, error) {
	in, err := c.drv.Open(c.dsn)
	if err != nil {
		return nil, err
	}
	mu.Lock()
	openConn++
	mu.Unlock()
	return &conn{in: in}, nil
}
func (c *connector) Driver() driver.Driver { return c.drv }

type conn struct {
	in     driver.Conn
	closed bool
	cur    *tx // the inner transaction begun on this connection, if any
}

func (c *conn) Prepare(q string) (driver.Stmt, error) {
	if err := point("prepare"); err != nil {
		return nil, err
	}
	return c.in.Prepare(q)
}

func (c *conn) PrepareContext(ctx context.Context, q string) (driver.Stmt, error) {
	if err := point("prepare"); err != nil {
		return nil, err
	}
	if p, ok := c.in.(driver.ConnPrepareContext); ok {
		return p.PrepareContext(ctx, q)
	}
	return c.in.Prepare(q)
}

func (c *conn) Close() error {
	mu.Lock()
	if !c.closed {
		c.closed = true
		openConn--
	}
	cur := c.cur
	mu.Unlock()
	if cur != nil {
		cur.finish() // closing the connection ends whatever transaction it still had open
	}
	return c.in.Close()
}

func (c *conn) Begin() (driver.Tx, error) { return c.BeginTx(context.Background(), driver.TxOptions{}) }

func (c *conn) BeginTx(ctx context.Context, o driver.TxOptions) (driver.Tx, error) {
	if err := point("begin"); err != nil {
		return nil, err
	}
	var t driver.Tx
	var err error
	if b, ok := c.in.(driver.ConnBeginTx); ok {
		t, err = b.BeginTx(ctx, o)
	} else {
		t, err = c.in.Begin()
	}
	if err != nil {
		return nil, err
	}
	nt := &tx{in: t}
	mu.Lock()
	openTx++
	c.cur = nt
	mu.Unlock()
	return nt, nil
}

func (c *conn) ExecContext(ctx context.Context, q string, args []driver.NamedValue) (driver.Result, error) {
	e, ok := c.in.(driver.ExecerContext)
	if !ok {
		return nil, driver.ErrSkip
	}
	if err := point("exec"); err != nil {
		return nil, err
	}
	return e.ExecContext(ctx, q, args)
}

func (c *conn) QueryContext(ctx context.Context, q string, args []driver.NamedValue) (driver.Rows, error) {
	e, ok := c.in.(driver.QueryerContext)
	if !ok {
		return nil, driver.ErrSkip
	}
	if err := point("query"); err != nil {
		return nil, err
	}
	return e.QueryContext(ctx, q, args)
}

func (c *conn) Ping(ctx context.Context) error {
	if p, ok := c.in.(driver.Pinger); ok {
		return p.Ping(ctx)
	}
	return nil
}

func (c *conn) ResetSession(ctx context.Context) error {
	if p, ok := c.in.(driver.SessionResetter); ok {
		return p.ResetSession(ctx)
	}
	return nil
}

func (c *conn) IsValid() bool {
	if p, ok := c.in.(driver.Validator); ok {
		return p.IsValid()
	}
	return true
}

type tx struct {
	in   driver.Tx
	done bool
}

func (t *tx) finish() {
	mu.Lock()
	if !t.done {
		t.done = true
		openTx--
	}
	mu.Unlock()
}

func (t *tx) Commit() error {
	if err := point("commit"); err != nil {
		if err == errCommitOpen {
			return fmt.Errorf("%w", err) // inner transaction deliberately left open
		}
		// a failed commit of another kind: SQLite has rolled the transaction back
		t.in.Rollback()
		t.finish()
		return err
	}
	err := t.in.Commit()
	t.finish()
	return err
}

func (t *tx) Rollback() error {
	if err := point("rollback"); err != nil {
		// the rollback call itself failing still ends the inner transaction when the connection goes away;
		// keep it simple: perform it, report the error
		t.in.Rollback()
		t.finish()
		return err
	}
	err := t.in.Rollback()
	t.finish()
	return err
}
