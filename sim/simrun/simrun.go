// Package simrun is the harness-side runner shared by all property engines: case
// representation, batch / replay / shrink modes, result summaries.
//
// A Case is the complete, explicit description of one simulated execution: knobs,
// operation list, fault list and (optionally) the scheduler's decisions. Generate(seed)
// makes one from a seed; Execute runs it inside a fresh synctest bubble. Replay files
// are Cases serialised as JSON.
package simrun

import (
	"encoding/json"
	"fmt"
	"os"
	"os/signal"
	"runtime/debug"
	"sort"
	"strconv"
	"strings"
	"syscall"
	"testing"
	"testing/synctest"
	"time"

	"github.com/tucats/ego/internal/verifsim/sim"
)

// Op is one generated operation or fault (generic so that shrinking is generic).
type Op struct {
	C int      `json:"c"`           // client / task number (0 = main)
	K string   `json:"k"`           // kind
	A []int64  `json:"a,omitempty"` // integer arguments
	S []string `json:"s,omitempty"` // string arguments
}

func (o Op) String() string {
	var b strings.Builder
	fmt.Fprintf(&b, "c%d:%s", o.C, o.K)
	for _, a := range o.A {
		fmt.Fprintf(&b, " %d", a)
	}
	for _, s := range o.S {
		fmt.Fprintf(&b, " %q", s)
	}
	return b.String()
}

func (o Op) Arg(i int) int64 {
	if i < len(o.A) {
		return o.A[i]
	}
	return 0
}

func (o Op) Str(i int) string {
	if i < len(o.S) {
		return o.S[i]
	}
	return ""
}

// Case is a replay file.
type Case struct {
	Prop      string           `json:"property"`
	Engine    string           `json:"engine"`
	Seed      uint64           `json:"seed"`       // run seed it was generated from
	SchedSeed uint64           `json:"sched_seed"` // scheduler PRNG seed (used when Sched is nil)
	Knobs     map[string]int64 `json:"knobs"`
	Ops       []Op             `json:"ops"`
	Faults    []Op             `json:"faults,omitempty"`
	Sched     []sim.Choice     `json:"sched,omitempty"`
	Violation string           `json:"violation,omitempty"` // class signature observed
	Detail    string           `json:"detail,omitempty"`
	Log       []string         `json:"log,omitempty"`
	Note      string           `json:"note,omitempty"`
}

func (c *Case) Knob(name string, def int64) int64 {
	if v, ok := c.Knobs[name]; ok {
		return v
	}
	return def
}

func (c *Case) Clone() *Case {
	b, _ := json.Marshal(c)
	var d Case
	json.Unmarshal(b, &d)
	return &d
}

// SchedOptions builds scheduler options for this case.
func (c *Case) SchedOptions(keepLog bool) sim.Options {
	o := sim.Options{
		Seed:        c.SchedSeed,
		PreemptNum:  int(c.Knob("preempt_num", 1)),
		PreemptDen:  int(c.Knob("preempt_den", 1)),
		MaxFree:     int(c.Knob("max_free", 0)),
		Tick:        time.Duration(c.Knob("tick_ns", 0)),
		KeepLog:     keepLog,
		UnlockYield: c.Knob("unlock_yield", 0) != 0,
	}
	if c.Sched != nil {
		o.Replay = c.Sched
	}
	return o
}

// Outcome of executing one case.
type Outcome struct {
	Violation    string         `json:"violation,omitempty"` // "" = property held; else a class signature
	Detail       string         `json:"detail,omitempty"`
	Inconclusive string         `json:"inconclusive,omitempty"` // run not counted (step cap, checker timeout...)
	Hash         uint64         `json:"hash"`                   // interleaving / history id
	Nontrivial   bool           `json:"nontrivial"`
	Probes       map[string]int `json:"probes,omitempty"`
	Faults       map[string]int `json:"faults,omitempty"` // fault kinds that actually fired
	Steps        int            `json:"steps"`
	SimTime      time.Duration  `json:"sim_ns"`
	Choices      []sim.Choice   `json:"-"`
	Log          []string       `json:"log,omitempty"`
	HarnessError string         `json:"harness_error,omitempty"` // never a verdict: exit 2
}

func (o *Outcome) Probe(name string, n int) {
	if o.Probes == nil {
		o.Probes = map[string]int{}
	}
	o.Probes[name] += n
}

func (o *Outcome) Fault(name string) {
	if o.Faults == nil {
		o.Faults = map[string]int{}
	}
	o.Faults[name]++
}

// Fail records the first violation.
func (o *Outcome) Fail(class, format string, a ...any) {
	if o.Violation == "" {
		o.Violation = class
		o.Detail = fmt.Sprintf(format, a...)
	}
}

// FromSched copies scheduler results into the outcome.
func (o *Outcome) FromSched(r sim.Result) {
	o.Hash = r.Hash
	o.Steps = r.Steps
	o.SimTime = r.SimTime
	o.Choices = r.Choices
	o.Log = append(o.Log, r.Log...)
	if r.Fatal != "" {
		// class = message + first repo frame of the offending call
		msg := r.Fatal
		if i := strings.IndexByte(msg, '\n'); i >= 0 {
			msg = msg[:i]
		}
		where := ""
		for _, line := range strings.Split(r.Fatal, "\n") {
			if strings.HasPrefix(line, "github.com/tucats/ego/") && !strings.Contains(line, "/verifsim/") {
				where = strings.TrimPrefix(line, "github.com/tucats/ego/internal/")
				if i := strings.LastIndexByte(where, '('); i > 0 {
					where = where[:i]
				}
				break
			}
		}
		o.Fail("fatal/"+strings.ReplaceAll(msg, " ", "-")+"@"+where, "the process would have died with an unrecoverable Go fatal error: %s", r.Fatal)
	}
	if r.Deadlock != "" {
		o.Fail("deadlock", "%s", r.Deadlock)
	}
	if r.StepCap {
		o.Inconclusive = "step cap"
	}
	for k, v := range r.Sites {
		if strings.Contains(k, ":") {
			o.Probe("site/"+k, v)
		}
	}
	o.Probe("sched/switches", r.Switches)
	if r.MaxRunnable > 1 {
		o.Probe("sched/runs_with_choice", 1)
	}
}

// Engine is implemented by each property harness.
type Engine interface {
	Name() string
	Property() string
	Generate(seed uint64, tier string) *Case
	// Execute runs the case; it is called on the test goroutine OUTSIDE any bubble and
	// must use Bubble for the simulated part.
	Execute(t *testing.T, c *Case, keepLog bool) *Outcome
}

// Enumerator is implemented by engines whose case space is finite and enumerated completely.
type Enumerator interface {
	Total(tier string) int
	CaseAt(i int, tier string) *Case
}

// Bubble runs f as the root goroutine of a fresh synctest bubble and swallows the
// end-of-bubble deadlock panic caused by tasks that are still parked when f returns.
func Bubble(t *testing.T, f func()) (panicked any) {
	// A sub-test per bubble: when the race detector fires inside a bubble, synctest.Test
	// ends the *calling test* with FailNow; with a sub-test only that sub-test ends and the
	// batch goes on (the report itself is collected from the race log by the driver).
	ok := t.Run("b", func(st *testing.T) {
		done := false
		defer func() {
			if r := recover(); r != nil {
				if done && strings.Contains(fmt.Sprint(r), "deadlock") {
					return
				}
				panicked = fmt.Sprintf("%v\n%s", r, debug.Stack())
			}
		}()
		synctest.Test(st, func(*testing.T) {
			f()
			done = true
		})
	})
	if !ok && panicked == nil && sim.RaceEnabled {
		bubbleRaced = true // the only other way for the sub-test to fail
	}
	return panicked
}

var signalOnce bool

// Prepare does the once-per-process things that must happen outside any bubble.
func Prepare() {
	if !signalOnce {
		signalOnce = true
		ch := make(chan os.Signal, 1)
		signal.Notify(ch, syscall.SIGUSR2)
		signal.Stop(ch)
	}
}

// Summary is what a batch process reports.
type Summary struct {
	Engine       string            `json:"engine"`
	From         int               `json:"from"`
	Count        int               `json:"count"`
	Runs         int               `json:"runs"`
	Inconclusive map[string]int    `json:"inconclusive,omitempty"`
	Hashes       []string          `json:"hashes"` // hex; of nontrivial runs
	Nontrivial   int               `json:"nontrivial"`
	Probes       map[string]int    `json:"probes"`
	Faults       map[string]int    `json:"faults"`
	Steps        int64             `json:"steps"`
	SimNS        int64             `json:"sim_ns"`
	WallNS       int64             `json:"wall_ns"`
	Violations   []*Case           `json:"violations,omitempty"`
	Samples      []*Case           `json:"samples,omitempty"`
	HarnessError string            `json:"harness_error,omitempty"`
	Next         int               `json:"next,omitempty"`      // >0: batch stopped early (tainted process); continue from this index
	SeedHash     map[string]string `json:"seed_hash,omitempty"` // determinism self-test
}

// RunSeed derives the seed of run i of a batch.
func RunSeed(base uint64, i int) uint64 { return sim.Mix(base, uint64(i)+1) }

func envInt(name string, def int) int {
	if v := os.Getenv(name); v != "" {
		n, err := strconv.Atoi(v)
		if err == nil {
			return n
		}
	}
	return def
}

// Main is called from each harness's TestVerifSim.
func Main(t *testing.T, e Engine) {
	mode := os.Getenv("VERIF_MODE")
	if mode == "" {
		t.Skip("VERIF_MODE not set (run through /verif/check.py)")
	}
	Prepare()
	out := os.Getenv("VERIF_OUT")
	tier := os.Getenv("VERIF_TIER")
	if tier == "" {
		tier = "quick"
	}
	write := func(v any) {
		b, _ := json.Marshal(v)
		if out == "" {
			fmt.Println(string(b))
			return
		}
		if err := os.WriteFile(out+".tmp", b, 0o644); err != nil {
			t.Fatal(err)
		}
		os.Rename(out+".tmp", out)
	}
	// seed-independent warm-up: first execution in a process differs (lazy initialisation)
	// (several fixed cases, so that process-wide one-time state -- lazily built tables, a root
	// symbol table that becomes shared for good, caches of compiled library packages -- has
	// reached its steady state before any counted run, whatever its position in the process)
	nwarm := 4
	if w, ok := e.(interface{ WarmupRuns() int }); ok {
		nwarm = w.WarmupRuns()
	}
	for i := 0; i < nwarm; i++ {
		warm := e.Generate(0x5EED0FF+uint64(i)*7919, tier)
		warm.SchedSeed = uint64(i + 1)
		if w, ok := e.(interface{ WarmupCase(*Case, int) }); ok {
			w.WarmupCase(warm, i) // an engine may widen the generated case so that it touches every lazily initialised path
		}
		execute(e, t, warm, false)
	}

	switch mode {
	case "batch", "hashes":
		base, _ := strconv.ParseUint(os.Getenv("VERIF_BASESEED"), 10, 64)
		from, count := envInt("VERIF_FROM", 0), envInt("VERIF_COUNT", 10)
		maxViol := envInt("VERIF_MAXVIOL", 3)
		deadline := time.Now().Add(time.Duration(envInt("VERIF_BUDGET_S", 3600)) * time.Second)
		s := &Summary{Engine: e.Name(), From: from, Count: count, Probes: map[string]int{}, Faults: map[string]int{}, Inconclusive: map[string]int{}}
		if mode == "hashes" {
			s.SeedHash = map[string]string{}
		}
		t0 := time.Now()
		seen := map[uint64]bool{}
		perClass := map[string]int{}
		for i := from; i < from+count; i++ {
			if time.Now().After(deadline) {
				break
			}
			seed := RunSeed(base, i)
			var c *Case
			if en, ok := e.(Enumerator); ok {
				// finite space: run index i IS case i; seeds play no role
				if i >= en.Total(tier) {
					break
				}
				seed = uint64(i)
				c = en.CaseAt(i, tier)
			} else {
				c = e.Generate(seed, tier)
			}
			o := execute(e, t, c, false)
			s.Runs++
			if o.HarnessError != "" {
				s.HarnessError = fmt.Sprintf("seed %d: %s", seed, o.HarnessError)
				break
			}
			if mode == "hashes" {
				s.SeedHash[strconv.FormatUint(seed, 10)] = fmt.Sprintf("%016x|%s", o.Hash, o.Violation)
			}
			for k, v := range o.Probes {
				s.Probes[k] += v
			}
			for k, v := range o.Faults {
				s.Faults[k] += v
			}
			s.Steps += int64(o.Steps)
			s.SimNS += int64(o.SimTime)
			if o.Inconclusive != "" {
				s.Inconclusive[o.Inconclusive]++
				continue
			}
			if o.Nontrivial && !seen[o.Hash] {
				seen[o.Hash] = true
				s.Hashes = append(s.Hashes, fmt.Sprintf("%016x", o.Hash))
			}
			if o.Nontrivial {
				s.Nontrivial++
			}
			// keep a few cases PER violation class (a frequent class, e.g. a listed known finding, must not
			// crowd out a rare one that shows up later in the same process)
			if o.Violation != "" && perClass[o.Violation] < maxViol && len(s.Violations) < 16*maxViol {
				perClass[o.Violation]++
				c.Sched = o.Choices
				if c.Sched == nil {
					c.Sched = []sim.Choice{}
				}
				c.Violation, c.Detail = o.Violation, o.Detail
				s.Violations = append(s.Violations, c)
			}
			if len(s.Samples) < 2 && o.Nontrivial && from == 0 {
				sc := c.Clone()
				sc.Sched = nil
				sc.Note = fmt.Sprintf("hash=%016x steps=%d probes=%v", o.Hash, o.Steps, o.Probes)
				s.Samples = append(s.Samples, sc)
			}
			if strings.HasPrefix(o.Violation, "fatal/") || o.Violation == "deadlock" {
				// tasks of that run were abandoned wherever they stood, possibly holding
				// package-level locks of the repo: this process is tainted. Stop here; the
				// driver continues the batch in a fresh process from index Next.
				s.Next = i + 1
				break
			}
		}
		s.WallNS = int64(time.Since(t0))
		write(s)
	case "total":
		n := -1
		if en, ok := e.(Enumerator); ok {
			n = en.Total(tier)
		}
		write(map[string]any{"total": n})
	case "raceself":
		raceSelfTest(t)
		write(map[string]any{"race_enabled": sim.RaceEnabled})
	case "trace": // debugging aid: full log of the run generated from one run seed
		seed, _ := strconv.ParseUint(os.Getenv("VERIF_RUNSEED"), 10, 64)
		// optional prelude: other runs executed first in this process (to chase state that leaks between runs)
		base, _ := strconv.ParseUint(os.Getenv("VERIF_BASESEED"), 10, 64)
		for i := envInt("VERIF_FROM", 0); i < envInt("VERIF_FROM", 0)+envInt("VERIF_COUNT", 0); i++ {
			execute(e, t, e.Generate(RunSeed(base, i), tier), false)
		}
		c := e.Generate(seed, tier)
		o := execute(e, t, c, true)
		write(map[string]any{"case": c, "outcome": o})
	case "replay":
		c := loadCase(t, os.Getenv("VERIF_CASE"))
		o := execute(e, t, c, true)
		write(o)
	case "shrink":
		c := loadCase(t, os.Getenv("VERIF_CASE"))
		m := Shrink(t, e, c, envInt("VERIF_SHRINK_MAX", 600))
		write(m)
	default:
		t.Fatalf("unknown VERIF_MODE %q", mode)
	}
}

func loadCase(t *testing.T, path string) *Case {
	b, err := os.ReadFile(path)
	if err != nil {
		t.Fatal(err)
	}
	var c Case
	if err := json.Unmarshal(b, &c); err != nil {
		t.Fatal(err)
	}
	return &c
}

// ArgKeeper is implemented by engines some of whose integer arguments must not be shrunk (e.g.
// values that the oracle relies on being unique).
type ArgKeeper interface {
	KeepArg(op Op, argIndex int) bool
}

// Shrink minimises a failing case while the same violation class persists.
func Shrink(t *testing.T, e Engine, c *Case, maxExec int) *Case {
	want := c.Violation
	execs := 0
	try := func(x *Case) (*Outcome, bool) {
		if execs >= maxExec {
			return nil, false
		}
		execs++
		o := execute(e, t, x, false)
		return o, o.HarnessError == "" && o.Violation == want
	}
	best := c.Clone()
	if o, ok := try(best); !ok {
		best.Note = "shrink: original case did not reproduce in-process"
		if o != nil {
			best.Note += fmt.Sprintf(" (got violation=%q harness_error=%q)", o.Violation, o.HarnessError)
		}
		return best
	}
	// 1. try the default schedule (no recorded decisions at all => lowest id / stay on current)
	{
		x := best.Clone()
		x.Sched = []sim.Choice{}
		if _, ok := try(x); ok {
			best = x
		}
	}
	// 2. ddmin on ops, faults
	best.Ops = ddmin(best.Ops, func(ops []Op) bool {
		x := best.Clone()
		x.Ops = ops
		_, ok := try(x)
		return ok
	})
	best.Faults = ddmin(best.Faults, func(f []Op) bool {
		x := best.Clone()
		x.Faults = f
		_, ok := try(x)
		return ok
	})
	// 3. shrink integer arguments toward 0 (halving), a few rounds
	keeper, _ := e.(ArgKeeper)
	for oi := range best.Ops {
		for ai := range best.Ops[oi].A {
			if keeper != nil && keeper.KeepArg(best.Ops[oi], ai) {
				continue
			}
			for best.Ops[oi].A[ai] > 1 {
				x := best.Clone()
				x.Ops[oi].A[ai] /= 2
				if _, ok := try(x); !ok {
					break
				}
				best = x
			}
		}
	}
	// 4. schedule: truncate, then drop chunks
	if len(best.Sched) > 0 {
		for n := 0; n < len(best.Sched); n = n*2 + 1 {
			x := best.Clone()
			x.Sched = x.Sched[:n]
			if _, ok := try(x); ok {
				best = x
				break
			}
		}
		best.Sched = ddminChoices(best.Sched, func(s []sim.Choice) bool {
			x := best.Clone()
			x.Sched = s
			_, ok := try(x)
			return ok
		})
	}
	// final: re-run with the log kept
	o := execute(e, t, best, true)
	best.Violation, best.Detail, best.Log = o.Violation, o.Detail, o.Log
	best.Note = fmt.Sprintf("minimised with %d executions", execs)
	if len(best.Log) > 400 {
		best.Log = append(best.Log[:200], best.Log[len(best.Log)-200:]...)
	}
	return best
}

func ddmin(ops []Op, fails func([]Op) bool) []Op {
	n := 2
	for len(ops) >= 1 {
		chunk := (len(ops) + n - 1) / n
		reduced := false
		for start := 0; start < len(ops); start += chunk {
			end := start + chunk
			if end > len(ops) {
				end = len(ops)
			}
			cand := append(append([]Op{}, ops[:start]...), ops[end:]...)
			if fails(cand) {
				ops = cand
				if n > 2 {
					n--
				}
				reduced = true
				break
			}
		}
		if !reduced {
			if chunk <= 1 {
				break
			}
			n *= 2
			if n > len(ops) {
				n = len(ops)
			}
		}
	}
	return ops
}

func ddminChoices(ch []sim.Choice, fails func([]sim.Choice) bool) []sim.Choice {
	n := 2
	for len(ch) >= 1 {
		chunk := (len(ch) + n - 1) / n
		reduced := false
		for start := 0; start < len(ch); start += chunk {
			end := start + chunk
			if end > len(ch) {
				end = len(ch)
			}
			cand := append(append([]sim.Choice{}, ch[:start]...), ch[end:]...)
			if fails(cand) {
				ch = cand
				if n > 2 {
					n--
				}
				reduced = true
				break
			}
		}
		if !reduced {
			if chunk <= 1 {
				break
			}
			n *= 2
			if n > len(ch) {
				n = len(ch)
			}
		}
	}
	return ch
}

// HashStrings folds strings into a 64-bit FNV hash (history ids for engines whose
// nondeterminism is not the scheduler).
func HashStrings(h uint64, ss ...string) uint64 {
	if h == 0 {
		h = 1469598103934665603
	}
	for _, s := range ss {
		for i := 0; i < len(s); i++ {
			h = (h ^ uint64(s[i])) * 1099511628211
		}
		h = (h ^ 0xff) * 1099511628211
	}
	return h
}

// SortedKeys is a small helper for deterministic iteration.
func SortedKeys[V any](m map[string]V) []string {
	k := make([]string, 0, len(m))
	for x := range m {
		k = append(k, x)
	}
	sort.Strings(k)
	return k
}
