package simrun

import (
	"os"
	"path/filepath"
	"regexp"
	"sort"
	"strconv"
	"strings"
	"testing"
)

// Per-run attribution of race-detector reports. The race runtime appends its reports to
// $VERIF_RACELOG.<pid> (GORACE log_path); a bubble during which the detector fired ends its
// sub-test as failed. After such a run the new part of the log is parsed and the run gets
// the violation class race/<top repo frame of access 1>|<top repo frame of access 2>.

var (
	bubbleRaced bool
	raceOffset  = map[string]int64{}
)

func execute(e Engine, t *testing.T, c *Case, keepLog bool) *Outcome {
	bubbleRaced = false
	o := e.Execute(t, c, keepLog)
	if bubbleRaced {
		sig, text := newRaceReports()
		if o.Violation == "" || strings.HasPrefix(o.Violation, "race/") {
			o.Violation = "race/" + sig
			o.Detail = text
		}
	}
	return o
}

func newRaceReports() (sig, text string) {
	prefix := os.Getenv("VERIF_RACELOG")
	if prefix == "" {
		return "unattributed", "race detected (no VERIF_RACELOG)"
	}
	// only THIS process's log (the race runtime appends ".<pid>"): batch, shrink and replay processes of one
	// check share the prefix, and another process's reports must never be attributed to a run of this one
	files, _ := filepath.Glob(prefix + "." + strconv.Itoa(os.Getpid()))
	sort.Strings(files)
	var fresh strings.Builder
	for _, f := range files {
		b, err := os.ReadFile(f)
		if err != nil {
			continue
		}
		off := raceOffset[f]
		if int64(len(b)) > off {
			fresh.Write(b[off:])
			raceOffset[f] = int64(len(b))
		}
	}
	return RaceSignature(fresh.String())
}

var frameRE = regexp.MustCompile(`(?m)^  (github\.com/tucats/ego/\S+)\(\)$`)

// RaceSignature extracts the class signature of the first report in text.
func RaceSignature(text string) (sig, first string) {
	i := strings.Index(text, "WARNING: DATA RACE")
	if i < 0 {
		return "unparsed", text
	}
	first = text[i:]
	if j := strings.Index(first, "\n=================="); j > 0 {
		first = first[:j]
	}
	// split into the two access stacks
	parts := regexp.MustCompile(`(?m)^(Previous )?(read|write|Read|Write|atomic read|atomic write|Atomic read|Atomic write) at .*$`).Split(first, -1)
	var tops []string
	for _, p := range parts[1:] {
		if k := strings.Index(p, "\nGoroutine "); k >= 0 {
			p = p[:k]
		}
		top := ""
		for _, m := range frameRE.FindAllStringSubmatch(p, -1) {
			fn := strings.TrimPrefix(m[1], "github.com/tucats/ego/internal/")
			fn = strings.TrimPrefix(fn, "github.com/tucats/ego/")
			if strings.Contains(fn, "verifsim/") {
				continue
			}
			top = fn
			break
		}
		if top == "" {
			top = "non-repo"
		}
		tops = append(tops, top)
		if len(tops) == 2 {
			break
		}
	}
	sort.Strings(tops)
	if len(first) > 5000 {
		first = first[:5000]
	}
	return strings.Join(tops, "|"), first
}
