package simrun

import (
	"testing"

	"github.com/tucats/ego/internal/verifsim/sim"
	sync "github.com/tucats/ego/internal/verifsim/sync"
)

// Race self-test (DESIGN.md §2.2): under the serialising scheduler the race detector must
// still report an unsynchronised access (raceFixtureRacy) and must stay silent when the
// same accesses are guarded by a shim mutex (raceFixtureClean). The driver greps the race
// log for the two function names.

var raceFixtureCounter int

//go:noinline
func raceFixtureRacy() { raceFixtureCounter++ }

var raceFixtureMu sync.Mutex
var raceFixtureGuarded int

//go:noinline
func raceFixtureClean() {
	raceFixtureMu.Lock()
	raceFixtureGuarded++
	raceFixtureMu.Unlock()
}

func raceSelfTest(t *testing.T) {
	for seed := uint64(1); seed <= 5; seed++ {
		Bubble(t, func() {
			sim.Run(sim.Options{Seed: seed, PreemptNum: 1, PreemptDen: 1}, func() {
				var wg sync.WaitGroup
				for i := 0; i < 3; i++ {
					wg.Add(1)
					sim.Go(func() {
						defer wg.Done()
						for k := 0; k < 4; k++ {
							sim.Yield("fixture")
							raceFixtureRacy()
							raceFixtureClean()
						}
					})
				}
				wg.Wait()
			})
		})
	}
}
