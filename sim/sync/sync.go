// Package sync is the scheduling shim that replaces the standard "sync" import in
// instrumented repo files (rule R1a). It is deliberately *named* sync so that reflect
// type names (sync.Mutex, sync.WaitGroup, ...) stay what Ego's native-type dispatch
// expects.
//
// Every type wraps the real one. The real primitive still provides mutual exclusion and
// the happens-before edges the race detector needs; only *waiting* is routed through the
// simulator: Lock = yield, then TryLock until it succeeds, yielding (blocked) between
// attempts. With no simulation running, or on a goroutine that is not a task, every
// method calls the real one.
package sync

import (
	stdsync "sync"
	"sync/atomic"

	"github.com/tucats/ego/internal/verifsim/sim"
)

type (
	Map    = stdsync.Map
	Pool   = stdsync.Pool
	Cond   = stdsync.Cond
	Locker = stdsync.Locker
)

func NewCond(l Locker) *Cond { return stdsync.NewCond(l) }

func OnceFunc(f func()) func() { return stdsync.OnceFunc(f) }

// Mutex
type Mutex struct{ m stdsync.Mutex }

func (m *Mutex) Lock() {
	if !sim.BeforeLock("") {
		m.m.Lock()
		return
	}
	for !m.m.TryLock() {
		sim.Blocked("mutex")
	}
}

func (m *Mutex) TryLock() bool { return m.m.TryLock() }

func (m *Mutex) Unlock() {
	if sim.Active() && m.m.TryLock() {
		// it was NOT locked: the real runtime ends the process here ("fatal error: sync: unlock
		// of unlocked mutex", not recoverable). One task runs at a time, so the probe is exact.
		m.m.Unlock()
		sim.Fatal("sync: unlock of unlocked mutex")
	}
	m.m.Unlock()
	sim.AfterUnlock()
}

// RWMutex
type RWMutex struct{ m stdsync.RWMutex }

func (m *RWMutex) Lock() {
	if !sim.BeforeLock("") {
		m.m.Lock()
		return
	}
	for !m.m.TryLock() {
		sim.Blocked("rwmutex")
	}
}

func (m *RWMutex) RLock() {
	if !sim.BeforeLock("") {
		m.m.RLock()
		return
	}
	for !m.m.TryRLock() {
		sim.Blocked("rwmutex-r")
	}
}

func (m *RWMutex) TryLock() bool  { return m.m.TryLock() }
func (m *RWMutex) TryRLock() bool { return m.m.TryRLock() }

func (m *RWMutex) Unlock() {
	if sim.Active() && m.m.TryLock() {
		m.m.Unlock()
		sim.Fatal("sync: Unlock of unlocked RWMutex")
	}
	m.m.Unlock()
	sim.AfterUnlock()
}

func (m *RWMutex) RUnlock() {
	if sim.Active() && m.m.TryLock() {
		m.m.Unlock()
		sim.Fatal("sync: RUnlock of unlocked RWMutex")
	}
	m.m.RUnlock()
	sim.AfterUnlock()
}

func (m *RWMutex) RLocker() Locker { return (*rlocker)(m) }

type rlocker RWMutex

func (r *rlocker) Lock()   { (*RWMutex)(r).RLock() }
func (r *rlocker) Unlock() { (*RWMutex)(r).RUnlock() }

// WaitGroup keeps a shadow counter so that Wait can be a scheduling loop instead of a
// real block; the real WaitGroup still sees every Add/Done/Wait (panics on misuse and
// the Done->Wait happens-before edge are preserved).
type WaitGroup struct {
	wg stdsync.WaitGroup
	n  atomic.Int64
}

func (w *WaitGroup) Add(delta int) {
	sim.ShadowAdd(&w.n, int64(delta))
	w.wg.Add(delta)
	if delta < 0 {
		sim.Progress()
	}
}

func (w *WaitGroup) Done() { w.Add(-1) }

func (w *WaitGroup) Go(f func()) {
	w.Add(1)
	sim.Go(func() {
		defer w.Done()
		f()
	})
}

func (w *WaitGroup) Wait() {
	if sim.BeforeLock("wg") {
		for sim.ShadowLoad(&w.n) > 0 {
			sim.Blocked("wg")
		}
	}
	w.wg.Wait()
}

// Once is re-implemented on the shim mutex because repo code does blocking work inside
// Do (network I/O in oauth.Initialize), which must be schedulable.
type Once struct {
	m    Mutex
	done atomic.Bool
}

func (o *Once) Do(f func()) {
	if o.done.Load() {
		return
	}
	o.m.Lock()
	defer o.m.Unlock()
	if !o.done.Load() {
		defer o.done.Store(true)
		f()
	}
}
