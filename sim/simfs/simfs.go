// Package os (import path internal/verifsim/simfs) replaces the "os" import of
// tools/langlint/lint.go (rule R1c). Every call is executed on the real file system (a
// scratch directory) and is a numbered *fault point*: the installed plan may stop the
// calling goroutine for ever right after operation N (a process crash: nothing else of
// the program runs, no deferred function either), may stop it in the middle of a Write
// after k bytes (torn write), or may make operation N fail with an injected error
// without executing it.
package os

import (
	"fmt"
	stdos "os"
	stdsync "sync"
)

type (
	FileInfo = stdos.FileInfo
	FileMode = stdos.FileMode
	DirEntry = stdos.DirEntry
)

var (
	ErrNotExist = stdos.ErrNotExist
	Args        = stdos.Args
	Stderr      = stdos.Stderr
	Stdout      = stdos.Stdout
)

// Plan of one execution.
type Plan struct {
	CrashAfter int   // crash right after operation number N completed (1-based); 0 = crash before the first operation; -1 = never
	CutWrite   int   // with CrashAfter = N and N a Write: write only this many bytes, then crash (-1 = whole write)
	FailOp     int   // operation number that fails with FailErr instead of executing (0 = none)
	FailErr    error // injected error
}

// Trace entry.
type OpRec struct {
	N    int
	Name string
	Arg  string
	Size int
}

var (
	mu       stdsync.Mutex
	plan     = Plan{CrashAfter: -1, CutWrite: -1}
	count    int
	trace    []OpRec
	crashed  chan struct{}
	didCrash bool
	didFail  bool
)

// Install resets the counters and installs a plan. The returned channel is closed when
// the plan's crash point is reached.
func Install(p Plan) <-chan struct{} {
	mu.Lock()
	defer mu.Unlock()
	plan = p
	count = 0
	trace = nil
	didCrash, didFail = false, false
	crashed = make(chan struct{})
	return crashed
}

// Uninstall disables fault injection and returns the operations performed.
func Uninstall() (ops []OpRec, crashedFlag, failedFlag bool) {
	mu.Lock()
	defer mu.Unlock()
	plan = Plan{CrashAfter: -1, CutWrite: -1}
	return trace, didCrash, didFail
}

func stop() {
	mu.Lock()
	didCrash = true
	close(crashed)
	mu.Unlock()
	select {} // the "process" is dead: this goroutine never runs again
}

// begin registers an operation. It returns (cut, err): err != nil => fail without executing.
func begin(name, arg string, size int) (n int, err error) {
	mu.Lock()
	if count == 0 && plan.CrashAfter == 0 {
		mu.Unlock()
		stop()
	}
	count++
	n = count
	trace = append(trace, OpRec{N: n, Name: name, Arg: arg, Size: size})
	if plan.FailOp == n {
		didFail = true
		err = plan.FailErr
	}
	mu.Unlock()
	return n, err
}

func end(n int) {
	mu.Lock()
	c := plan.CrashAfter == n
	mu.Unlock()
	if c {
		stop()
	}
}

func ReadFile(name string) ([]byte, error) {
	n, err := begin("ReadFile", name, 0)
	if err != nil {
		return nil, &stdos.PathError{Op: "read", Path: name, Err: err}
	}
	b, e := stdos.ReadFile(name)
	end(n)
	return b, e
}

func WriteFile(name string, data []byte, perm FileMode) error {
	n, err := begin("WriteFile", name, len(data))
	if err != nil {
		return &stdos.PathError{Op: "write", Path: name, Err: err}
	}
	mu.Lock()
	cut := -1
	if plan.CrashAfter == n {
		cut = plan.CutWrite
	}
	mu.Unlock()
	if cut >= 0 && cut < len(data) {
		stdos.WriteFile(name, data[:cut], perm)
		stop()
	}
	e := stdos.WriteFile(name, data, perm)
	end(n)
	return e
}

func Stat(name string) (FileInfo, error) {
	n, err := begin("Stat", name, 0)
	if err != nil {
		return nil, &stdos.PathError{Op: "stat", Path: name, Err: err}
	}
	fi, e := stdos.Stat(name)
	end(n)
	return fi, e
}

func Lstat(name string) (FileInfo, error) {
	n, err := begin("Lstat", name, 0)
	if err != nil {
		return nil, &stdos.PathError{Op: "lstat", Path: name, Err: err}
	}
	fi, e := stdos.Lstat(name)
	end(n)
	return fi, e
}

func Chmod(name string, mode FileMode) error {
	n, err := begin("Chmod", name, 0)
	if err != nil {
		return &stdos.PathError{Op: "chmod", Path: name, Err: err}
	}
	e := stdos.Chmod(name, mode)
	end(n)
	return e
}

func Rename(oldpath, newpath string) error {
	n, err := begin("Rename", oldpath+" -> "+newpath, 0)
	if err != nil {
		return &stdos.LinkError{Op: "rename", Old: oldpath, New: newpath, Err: err}
	}
	e := stdos.Rename(oldpath, newpath)
	end(n)
	return e
}

func Remove(name string) error {
	n, err := begin("Remove", name, 0)
	if err != nil {
		return &stdos.PathError{Op: "remove", Path: name, Err: err}
	}
	e := stdos.Remove(name)
	end(n)
	return e
}

func ReadDir(name string) ([]DirEntry, error) {
	n, err := begin("ReadDir", name, 0)
	if err != nil {
		return nil, &stdos.PathError{Op: "readdir", Path: name, Err: err}
	}
	d, e := stdos.ReadDir(name)
	end(n)
	return d, e
}

func Link(oldname, newname string) error {
	n, err := begin("Link", oldname+" -> "+newname, 0)
	if err != nil {
		return &stdos.LinkError{Op: "link", Old: oldname, New: newname, Err: err}
	}
	e := stdos.Link(oldname, newname)
	end(n)
	return e
}

func IsNotExist(err error) bool { return stdos.IsNotExist(err) }
func IsExist(err error) bool    { return stdos.IsExist(err) }

// File wraps *os.File.
type File struct{ f *stdos.File }

func CreateTemp(dir, pattern string) (*File, error) {
	n, err := begin("CreateTemp", dir+"/"+pattern, 0)
	if err != nil {
		return nil, &stdos.PathError{Op: "createtemp", Path: dir, Err: err}
	}
	f, e := stdos.CreateTemp(dir, pattern)
	if e != nil {
		end(n)
		return nil, e
	}
	end(n)
	return &File{f}, nil
}

func Create(name string) (*File, error) {
	n, err := begin("Create", name, 0)
	if err != nil {
		return nil, &stdos.PathError{Op: "create", Path: name, Err: err}
	}
	f, e := stdos.Create(name)
	if e != nil {
		end(n)
		return nil, e
	}
	end(n)
	return &File{f}, nil
}

func OpenFile(name string, flag int, perm FileMode) (*File, error) {
	n, err := begin("OpenFile", name, 0)
	if err != nil {
		return nil, &stdos.PathError{Op: "open", Path: name, Err: err}
	}
	f, e := stdos.OpenFile(name, flag, perm)
	if e != nil {
		end(n)
		return nil, e
	}
	end(n)
	return &File{f}, nil
}

const (
	O_RDONLY = stdos.O_RDONLY
	O_WRONLY = stdos.O_WRONLY
	O_RDWR   = stdos.O_RDWR
	O_CREATE = stdos.O_CREATE
	O_TRUNC  = stdos.O_TRUNC
	O_EXCL   = stdos.O_EXCL
	O_APPEND = stdos.O_APPEND
)

func (f *File) Name() string { return f.f.Name() }

func (f *File) Write(b []byte) (int, error) {
	n, err := begin("Write", f.f.Name(), len(b))
	if err != nil {
		return 0, &stdos.PathError{Op: "write", Path: f.f.Name(), Err: err}
	}
	mu.Lock()
	cut := -1
	if plan.CrashAfter == n {
		cut = plan.CutWrite
	}
	mu.Unlock()
	if cut >= 0 && cut < len(b) {
		f.f.Write(b[:cut])
		stop()
	}
	w, e := f.f.Write(b)
	end(n)
	return w, e
}

func (f *File) WriteString(s string) (int, error) { return f.Write([]byte(s)) }

func (f *File) Close() error {
	n, err := begin("Close", f.f.Name(), 0)
	if err != nil {
		f.f.Close()
		return &stdos.PathError{Op: "close", Path: f.f.Name(), Err: err}
	}
	e := f.f.Close()
	end(n)
	return e
}

func (f *File) Sync() error {
	n, err := begin("Sync", f.f.Name(), 0)
	if err != nil {
		return &stdos.PathError{Op: "sync", Path: f.f.Name(), Err: err}
	}
	e := f.f.Sync()
	end(n)
	return e
}

func (f *File) Chmod(mode FileMode) error {
	n, err := begin("File.Chmod", f.f.Name(), 0)
	if err != nil {
		return &stdos.PathError{Op: "chmod", Path: f.f.Name(), Err: err}
	}
	e := f.f.Chmod(mode)
	end(n)
	return e
}

func (f *File) Stat() (FileInfo, error) { return f.f.Stat() }

func (r OpRec) String() string { return fmt.Sprintf("%d:%s(%s)", r.N, r.Name, r.Arg) }
